(* C14 — bookkeeping of MRIModelEngine.reconstruct_volumes as a state machine over batches (hand-written; no proofs). *)
From DV Require Import Base.Tactics.

Section Recon.
Variables (Name I O : Type).
Variable name_eqb : Name -> Name -> bool.
Variable f : I -> O.                 (* per-slice result: _process_output (model output) — rescale, modulus, crop *)
Variable vsize : Name -> nat.        (* len(batch_sampler.sampler.volume_indices[filename]) *)

(* last_filename, curr_volume (the slices written so far; the tensor has room for volume_size), slice_counter, volume_size *)
Record st := { last : option Name; buf : option (list O); counter : nat; vsz : nat }.
Definition st0 : st := {| last := None; buf := None; counter := 0; vsz := 0 |}.

(* one loop iteration; None = the implementation raises (slice assignment beyond the volume buffer) *)
Definition step (s : st) (b : Name * list I) : option (st * list (Name * list O)) :=
  let (fname, items) := b in
  let last1 := match last s with None => fname | Some l => l end in
  let changed := negb (name_eqb last1 fname) in
  let buf1 := if changed then None else buf s in
  let counter1 := if changed then 0 else counter s in
  let outs := map f items in
  let vsz2 := match buf1 with None => vsize fname | Some _ => vsz s end in
  let buf2 := match buf1 with None => [] | Some l => l end in
  if vsz2 <? counter1 + length outs then None else
  let buf3 := buf2 ++ outs in
  let counter3 := counter1 + length outs in
  let s' := {| last := Some fname; buf := Some buf3; counter := counter3; vsz := vsz2 |} in
  Some (s', if counter3 =? vsz2 then [(fname, buf3)] else []).

Fixpoint run (s : st) (batches : list (Name * list I)) : option (st * list (Name * list O)) :=
  match batches with
  | [] => Some (s, [])
  | b :: t => match step s b with
              | None => None
              | Some (s', out) => match run s' t with
                                  | None => None
                                  | Some (s'', outs) => Some (s'', out ++ outs)
                                  end
              end
  end.

Definition reconstruct (batches : list (Name * list I)) : option (list (Name * list O)) :=
  option_map snd (run st0 batches).

(* a volume as delivered by the loader: its name and its slices grouped in consecutive batches *)
Definition batches_of (vols : list (Name * list (list I))) : list (Name * list I) :=
  concat (map (fun v => map (fun c => (fst v, c)) (snd v)) vols).
End Recon.

Arguments last {Name O} s.
Arguments buf {Name O} s.
Arguments counter {Name O} s.
Arguments vsz {Name O} s.
