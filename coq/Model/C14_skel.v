(* C14 — the loop body of MRIModelEngine.reconstruct_volumes as a small statement language over its four state
   variables (last_filename, curr_volume, slice_counter, volume_size), with the volume as a buffer of volume_size
   slots written by slice assignment. The statement list is regenerated from the source (vlib/props/c14.py). *)
From DV Require Import Base.Tactics.

Inductive cond := CLastIsNone | CLastNeqFile | CBufIsNone | CCounterEqVsz.
Inductive sstmt :=
| SSetLastFile        (* last_filename = filename *)
| SResetVolume        (* curr_volume = None *)
| SResetCounter       (* slice_counter = 0 *)
| SSetVsz             (* volume_size = len(sampler.volume_indices[filename]) *)
| SAllocBuf           (* curr_volume = torch.zeros(volume_size, ...) *)
| SWriteSlice         (* curr_volume[slice_counter : slice_counter + n] = output_abs *)
| SAddCounter         (* slice_counter += n *)
| SYield              (* yield (curr_volume, ..., filename) *)
| SIf (c : cond) (body : list sstmt)
| SIfElse (c : cond) (body orelse : list sstmt).   (* if / elif / else *)

Section Skel.
Variables (Name Out : Type).
Variable name_eqb : Name -> Name -> bool.
Variable vsize : Name -> nat.

Record zst := { zlast : option Name; zbuf : option (list (option Out)); zcounter : nat; zvsz : nat }.
Definition zst0 : zst := {| zlast := None; zbuf := None; zcounter := 0; zvsz := 0 |}.

Definition holds (c : cond) (s : zst) (fname : Name) : bool :=
  match c with
  | CLastIsNone => match zlast s with None => true | Some _ => false end
  | CLastNeqFile => match zlast s with None => true | Some l => negb (name_eqb l fname) end
  | CBufIsNone => match zbuf s with None => true | Some _ => false end
  | CCounterEqVsz => Nat.eqb (zcounter s) (zvsz s)
  end.

(* None = the implementation raises (a slice assignment whose source does not fit the clamped destination) *)
Fixpoint exec1 (fuel : nat) (st : sstmt) (fname : Name) (outs : list Out) (s : zst) (ys : list (Name * list (option Out)))
  : option (zst * list (Name * list (option Out))) :=
  match st with
  | SSetLastFile => Some ({| zlast := Some fname; zbuf := zbuf s; zcounter := zcounter s; zvsz := zvsz s |}, ys)
  | SResetVolume => Some ({| zlast := zlast s; zbuf := None; zcounter := zcounter s; zvsz := zvsz s |}, ys)
  | SResetCounter => Some ({| zlast := zlast s; zbuf := zbuf s; zcounter := 0; zvsz := zvsz s |}, ys)
  | SSetVsz => Some ({| zlast := zlast s; zbuf := zbuf s; zcounter := zcounter s; zvsz := vsize fname |}, ys)
  | SAllocBuf => Some ({| zlast := zlast s; zbuf := Some (repeat None (zvsz s)); zcounter := zcounter s; zvsz := zvsz s |}, ys)
  | SWriteSlice => match zbuf s with
                   | Some b => if zcounter s + length outs <=? length b
                               then Some ({| zlast := zlast s; zbuf := Some (firstn (zcounter s) b ++ map Some outs ++ skipn (zcounter s + length outs) b);
                                             zcounter := zcounter s; zvsz := zvsz s |}, ys)
                               else None
                   | None => None
                   end
  | SAddCounter => Some ({| zlast := zlast s; zbuf := zbuf s; zcounter := zcounter s + length outs; zvsz := zvsz s |}, ys)
  | SYield => match zbuf s with Some b => Some (s, ys ++ [(fname, b)]) | None => None end
  | SIf c body => if holds c s fname
                  then match fuel with
                       | O => None
                       | S fuel' => (fix go (l : list sstmt) (s : zst) (ys : list (Name * list (option Out))) :=
                                       match l with
                                       | [] => Some (s, ys)
                                       | x :: r => match exec1 fuel' x fname outs s ys with Some (s', ys') => go r s' ys' | None => None end
                                       end) body s ys
                       end
                  else Some (s, ys)
  | SIfElse c body orelse =>
                  match fuel with
                  | O => None
                  | S fuel' => (fix go (l : list sstmt) (s : zst) (ys : list (Name * list (option Out))) :=
                                  match l with
                                  | [] => Some (s, ys)
                                  | x :: r => match exec1 fuel' x fname outs s ys with Some (s', ys') => go r s' ys' | None => None end
                                  end) (if holds c s fname then body else orelse) s ys
                  end
  end.

Fixpoint exec (fuel : nat) (l : list sstmt) (fname : Name) (outs : list Out) (s : zst) (ys : list (Name * list (option Out))) :=
  match l with
  | [] => Some (s, ys)
  | x :: r => match exec1 fuel x fname outs s ys with Some (s', ys') => exec fuel r fname outs s' ys' | None => None end
  end.

(* the loop over the batches delivered by the loader *)
Fixpoint zrun (body : list sstmt) (s : zst) (batches : list (Name * list Out)) : option (zst * list (Name * list (option Out))) :=
  match batches with
  | [] => Some (s, [])
  | (fname, outs) :: t => match exec 2 body fname outs s [] with
                          | None => None
                          | Some (s', ys) => match zrun body s' t with
                                             | None => None
                                             | Some (s'', ys') => Some (s'', ys ++ ys')
                                             end
                          end
  end.
(* the same loop for a body that needs another nesting depth (the regenerated body is run with this one) *)
Fixpoint zrun_f (fuel : nat) (body : list sstmt) (s : zst) (batches : list (Name * list Out)) : option (zst * list (Name * list (option Out))) :=
  match batches with
  | [] => Some (s, [])
  | (fname, outs) :: t => match exec fuel body fname outs s [] with
                          | None => None
                          | Some (s', ys) => match zrun_f fuel body s' t with
                                             | None => None
                                             | Some (s'', ys') => Some (s'', ys ++ ys')
                                             end
                          end
  end.
End Skel.

(* the reference body (the tie proves that one loop iteration of the regenerated body and of this one are the same
   function of (file name, batch outputs, state)) *)
Definition spec_body : list sstmt :=
  [SIf CLastIsNone [SSetLastFile];
   SIf CLastNeqFile [SResetVolume; SResetCounter; SSetLastFile];
   SIf CBufIsNone [SSetVsz; SAllocBuf];
   SWriteSlice; SAddCounter;
   SIf CCounterEqVsz [SYield]].
