(* C20 — name resolution of direct.environment and key validation, as string functions over the registry of
   definitions (hand-written; no proofs here). *)
From Coq Require Import String Ascii List Bool Arith.
Import ListNotations.
Local Open Scope string_scope.

Definition lower_ascii (c : ascii) : ascii :=
  let n := nat_of_ascii c in if ((65 <=? n)%nat && (n <=? 90)%nat)%bool then ascii_of_nat (n + 32) else c.
Fixpoint lower (s : string) : string := match s with EmptyString => EmptyString | String c r => String (lower_ascii c) (lower r) end.
Fixpoint join (sep : string) (l : list string) : string :=
  match l with [] => "" | [x] => x | x :: r => x ++ sep ++ join sep r end.
Definition last_s (l : list string) : string := last l "".
Fixpoint mem (x : string) (l : list string) : bool := match l with [] => false | y :: r => if String.eqb x y then true else mem x r end.

(* a requirement: the attribute [name] must exist in module [modpath] *)
Definition req := (string * string)%type.

(* load_model_from_name / load_model_config_from_name / setup_engine (direct/environment.py) on the dotted model name
   given as its components *)
Definition model_req (comps : list string) : req := ("direct.nn." ++ join "." (map lower (removelast comps)), last_s comps).
Definition model_config_req (comps : list string) : req := ("direct.nn." ++ lower (hd "" comps) ++ ".config", last_s comps ++ "Config").
Definition engine_req (comps : list string) (engine_name : string) : req :=
  ("direct.nn." ++ lower (hd "" comps) ++ "." ++ lower (hd "" comps) ++ "_engine",
   if String.eqb engine_name "" then last_s comps ++ "Engine" else engine_name).
Definition dataset_config_req (name : string) : req := ("direct.data.datasets_config", name ++ "Config").
Definition dataset_req (name : string) : req := ("direct.data.datasets", name ++ "Dataset").
Definition masking_req (name : string) : req := ("direct.common.subsample", name ++ "MaskFunc").
Definition operator_req (name : string) : req := ("direct.data.transforms", name).

Definition registry := list (string * list string).
Fixpoint lookup (r : registry) (m : string) : option (list string) :=
  match r with [] => None | (k, v) :: t => if String.eqb k m then Some v else lookup t m end.
Definition resolves (r : registry) (q : req) : bool := match lookup r (fst q) with Some names => mem (snd q) names | None => false end.

(* what one shipped configuration needs *)
Record ycfg := {
  y_file : string;
  y_model : list string; y_engine : string; y_model_keys : list string;
  y_additional : list (list string * list string);     (* (model name components, keys) *)
  y_datasets : list string; y_maskings : list string; y_operators : list string }.

Definition requirements (c : ycfg) : list req :=
  [model_req (y_model c); model_config_req (y_model c); engine_req (y_model c) (y_engine c)]
  ++ flat_map (fun a => [model_req (fst a); model_config_req (fst a)]) (y_additional c)
  ++ flat_map (fun d => [dataset_config_req d; dataset_req d]) (y_datasets c)
  ++ map masking_req (y_maskings c) ++ map operator_req (y_operators c).

Definition names_resolve (r : registry) (c : ycfg) : bool := forallb (resolves r) (requirements c).

(* keys of a model section must be fields of its config class (model_name / engine_name are fields of ModelConfig) *)
Definition fields_of (cf : list (string * list string)) (q : req) : list string :=
  match lookup cf (fst q ++ ":" ++ snd q) with Some l => l | None => [] end.
Definition keys_known (cf : list (string * list string)) (c : ycfg) : bool :=
  forallb (fun k => mem k (fields_of cf (model_config_req (y_model c)))) (y_model_keys c)
  && forallb (fun a => forallb (fun k => mem k (fields_of cf (model_config_req (fst a)))) (snd a)) (y_additional c).

Definition config_ok (r : registry) (cf : list (string * list string)) (c : ycfg) : bool := names_resolve r c && keys_known cf c.
