(* C01 — the operation sequence of transforms.fft2 / ifft2 as a small op language over an abstract tensor type. *)
From DV Require Import Base.Tactics.

Inductive fop : Type :=
  | ViewComplex | ViewReal            (* (.., 2) real pairs <-> complex tensor *)
  | IShift | FShift                   (* ifftshift / fftshift over `dim` *)
  | Fwd | Bwd                         (* torch.fft.fftn / ifftn over `dim`, norm = "ortho" iff normalized *)
  | IfComplex (body : list fop)       (* if complex_input *)
  | IfCentered (body : list fop).     (* if centered *)

Section Sem.
Variable T : Type.
Variables (vc vr ishift fshift : T -> T) (F Finv : bool -> T -> T).

Fixpoint run1 (fuel : nat) (centered normalized complex_input : bool) (o : fop) (t : T) : T :=
  match fuel with
  | 0 => t
  | S f =>
    let runl := fix runl (l : list fop) (t : T) : T := match l with [] => t | o' :: r => runl r (run1 f centered normalized complex_input o' t) end in
    match o with
    | ViewComplex => vc t | ViewReal => vr t
    | IShift => ishift t | FShift => fshift t
    | Fwd => F normalized t | Bwd => Finv normalized t
    | IfComplex body => if complex_input then runl body t else t
    | IfCentered body => if centered then runl body t else t
    end
  end.
Fixpoint run (centered normalized complex_input : bool) (l : list fop) (t : T) : T :=
  match l with [] => t | o :: r => run centered normalized complex_input r (run1 4 centered normalized complex_input o t) end.
End Sem.
