(* C10 — executable model of cropping / padding (hand-written; no proofs here). *)
From DV Require Import Base.Tactics Base.NList.

Section OneAxis.
Context {A : Type}.

(* data[lo : lo + m] *)
Definition window (lo m : nat) (l : list A) : list A := firstn m (skipn lo l).

(* constant padding along one axis *)
Definition pad1 (before after : nat) (v : A) (l : list A) : list A := repeat v before ++ l ++ repeat v after.

Definition clip (x lo hi : Z) : Z := Z.max lo (Z.min x hi).

(* bbox.crop_to_bbox along one axis: the part of [c, c+s) inside [0, n) is copied, the rest is pad value *)
Definition crop1 (c s : Z) (v : A) (l : list A) : list A :=
  let n := Z.of_nat (length l) in
  let a := clip c 0 n in
  let b := clip (c + s) 0 n in
  let region := firstn (Z.to_nat (b - a)) (skipn (Z.to_nat a) l) in
  let before := Z.max 0 (Z.min (a - c) s) in
  repeat v (Z.to_nat before) ++ region ++ repeat v (Z.to_nat (s - before - (b - a))).
End OneAxis.

(* N-d versions: one entry per axis, outermost first *)
Fixpoint crop_nd {A} (r : nat) (cs ss : list Z) (v : A) : nl r A -> nl r A :=
  match r with
  | 0 => fun x => x
  | S r' => fun t => crop1 (hd 0%Z cs) (hd 0%Z ss) (full r' (map Z.to_nat (tl ss)) v) (map (crop_nd r' (tl cs) (tl ss) v) t)
  end.

Fixpoint window_nd {A} (r : nat) (los ms : list nat) : nl r A -> nl r A :=
  match r with
  | 0 => fun x => x
  | S r' => fun t => window (hd 0 los) (hd 0 ms) (map (window_nd r' (tl los) (tl ms)) t)
  end.

Fixpoint pad_nd {A} (r : nat) (ps : list (nat * nat)) (v : A) : nl r A -> nl r A :=
  match r with
  | 0 => fun x => x
  | S r' => fun t =>
      let inner := map (pad_nd r' (tl ps) v) t in
      let row := full r' (match inner with x :: _ => shape r' x | [] => [] end) v in
      pad1 (fst (hd (0, 0) ps)) (snd (hd (0, 0) ps)) row inner
  end.

(* torch.nn.functional.pad(x, pad): pad = [l_last; r_last; l_2ndlast; r_2ndlast; ...]; as per-axis pairs, outermost first,
   for a tensor whose padded axes are the last r ones *)
Fixpoint pairs (l : list Z) : list (nat * nat) :=
  match l with
  | a :: b :: t => (Z.to_nat a, Z.to_nat b) :: pairs t
  | _ => []
  end.
Definition fpad_pairs (r : nat) (pad : list Z) : list (nat * nat) :=
  let ps := rev (pairs pad) in repeat (0, 0) (r - length ps) ++ ps.
Definition fpad {A} (r : nat) (pad : list Z) (v : A) (t : nl r A) : nl r A := pad_nd r (fpad_pairs r pad) v t.
