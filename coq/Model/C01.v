(* C01 — N-d rolls / spectrum shifts in the index-function model (a tensor of a given shape is a function from
   multi-indices to values); hand-written, no proofs here.  roll_one_dim along axis d acts on every 1-D fibre as
   Base.Rot.rotr (that narrow/cat act fibre-wise is torch's semantics, validated by the correspondence run). *)
From DV Require Import Base.Tactics Base.Rot.

Definition upd (idx : list nat) (d v : nat) : list nat := firstn d idx ++ v :: skipn (S d) idx.

Section Idx.
Context {A : Type}.
Definition tensor := list nat -> A.

(* result[idx] = data[idx with idx_d replaced by (idx_d - s) mod n_d] *)
Definition sigma (shape : list nat) (sd : nat * nat) (idx : list nat) : list nat :=
  let (s, d) := sd in upd idx d (ridx s (nth d shape 0) (nth d idx 0)).
Definition roll_axis (shape : list nat) (sd : nat * nat) (f : tensor) : tensor := fun idx => f (sigma shape sd idx).
(* transforms.roll: for s, d in zip(shift, dim): data = roll_one_dim(data, s, d) *)
Definition roll_list (shape : list nat) (sds : list (nat * nat)) (f : tensor) : tensor :=
  fold_left (fun f sd => roll_axis shape sd f) sds f.
Definition fftshift_nd (shape dims : list nat) (f : tensor) : tensor :=
  roll_list shape (map (fun d => (nth d shape 0 / 2, d)) dims) f.
Definition ifftshift_nd (shape dims : list nat) (f : tensor) : tensor :=
  roll_list shape (map (fun d => ((nth d shape 0 + 1) / 2, d)) dims) f.
End Idx.

Definition valid (shape idx : list nat) : Prop :=
  length idx = length shape /\ forall d, d < length shape -> nth d idx 0 < nth d shape 0.

(* ---- exact centred DFT over the Gaussian integers for lengths 1, 2, 4 (w = 1, -1, -i; inverse: w = 1, -1, i) ---- *)
Local Open Scope Z_scope.
Definition zi := (Z * Z)%type.
Definition zi_add (a b : zi) : zi := (fst a + fst b, snd a + snd b).
Definition zi_mul (a b : zi) : zi := (fst a * fst b - snd a * snd b, fst a * snd b + snd a * fst b).
(* w^e for the primitive n-th root w = exp(-2 pi i / n), n in {1, 2, 4}; inverse uses the conjugate root *)
Definition wpow (inverse : bool) (n : nat) (e : nat) : zi :=
  match n with
  | 4%nat => match (e mod 4)%nat with 0%nat => (1, 0) | 1%nat => if inverse then (0, 1) else (0, -1) | 2%nat => (-1, 0) | _ => if inverse then (0, -1) else (0, 1) end
  | 2%nat => if Nat.even e then (1, 0) else (-1, 0)
  | _ => (1, 0)
  end.
(* textbook shifted DFT: X[k] = sum_m x[m] w^((m + n - c)(k + n - c)), c = n / 2  (Proofs/C01_dft.v: textbook_cdft) *)
Definition cdft1_zi (inverse : bool) (x : list zi) : list zi :=
  let n := length x in let c := (n / 2)%nat in
  map (fun k => fold_left zi_add (map (fun m => zi_mul (nth m x (0, 0)) (wpow inverse n ((m + (n - c)) * (k + (n - c))))) (seq 0 n)) (0, 0)) (seq 0 n).
Fixpoint transpose {A} (rows : list (list A)) : list (list A) :=
  match rows with
  | [] => []
  | r :: rs => match rs with
               | [] => map (fun x => [x]) r
               | _ => map (fun p => fst p :: snd p) (combine r (transpose rs))
               end
  end.
(* 2-D: the 1-D transform along each axis *)
Definition cdft2_zi (inverse : bool) (x : list (list zi)) : list (list zi) :=
  transpose (map (cdft1_zi inverse) (transpose (map (cdft1_zi inverse) x))).
