(* C12 — executable model of the index bookkeeping of H5SliceData and ConcatDataset (hand-written; no proofs). *)
From DV Require Import Base.Tactics.

(* ---- slice filter: Python slice(a, b) with step 1; None bounds; negative = from the end ---- *)
Definition pyidx (n i : Z) : Z := (if i <? 0 then Z.max (i + n) 0 else Z.min i n)%Z.
Definition admissible (flt : option (option Z * option Z)) (n : nat) : list nat :=
  match flt with
  | None => seq 0 n
  | Some (a, b) =>
      let lo := match a with None => 0%Z | Some a => pyidx (Z.of_nat n) a end in
      let hi := match b with None => Z.of_nat n | Some b => pyidx (Z.of_nat n) b end in
      seq (Z.to_nat lo) (Z.to_nat (hi - lo))
  end.

(* ---- H5SliceData.parse_filenames_data: files = slice counts in file order ----
   returns data = [(file number, slice number)] and volume_indices = [(start, stop)] *)
Fixpoint parse_from (cur fileno : nat) (files : list nat) (flt : option (option Z * option Z))
  : list (nat * nat) * list (nat * nat) :=
  match files with
  | [] => ([], [])
  | n :: t =>
      let adm := admissible flt n in
      let '(d, r) := parse_from (cur + length adm) (S fileno) t flt in
      (map (fun s => (fileno, s)) adm ++ d, (cur, cur + length adm) :: r)
  end.
Definition parse files flt := parse_from 0 0 files flt.

(* ---- context window: which slice of the file fills position j of the 2c+1 stack; None = zero slice ---- *)
Definition window_spec (c s n : nat) : list (option nat) :=
  map (fun j => if (c <=? s + j) && (s + j <? n + c) then Some (s + j - c) else None) (seq 0 (2 * c + 1)).

(* ---- ConcatDataset ---- *)
Fixpoint cumsum_from (acc : nat) (sizes : list nat) : list nat :=
  match sizes with [] => [] | n :: t => (acc + n) :: cumsum_from (acc + n) t end.
Definition cumsum := cumsum_from 0.
(* bisect.bisect_right on a sorted list = number of entries <= x *)
Fixpoint bisect_right (l : list nat) (x : nat) : nat :=
  match l with [] => 0 | y :: t => if y <=? x then S (bisect_right t x) else 0 end.
