(* C04 — shape bookkeeping of the mask generators, the bisection skeleton of VariableDensityPoisson and the rejection
   loop of the Gaussian kernels (hand-written; no proofs here). *)
From DV Require Import Base.Tactics.
Local Open Scope Z_scope.

(* Python list helpers with negative indices: l[-k] and l[-k] = v *)
Definition get_neg (k : nat) (l : list Z) : Z := nth (length l - k) l 0.
Definition set_neg (k : nat) (v : Z) (l : list Z) : list Z :=
  let i := (length l - k)%nat in if (k <=? length l)%nat then firstn i l ++ v :: skipn (S i) l else l.

(* the documented geometry: coil axis of size 1, every axis 1 except rows (-3), cols (-2) and, in dynamic / multislice
   mode, the frame axis (-4) *)
Definition spec_shape (dyn : bool) (shape : list Z) : list Z :=
  let n := length shape in
  1 :: map (fun i => if (Nat.eqb i (n - 2) || Nat.eqb i (n - 3) || (dyn && Nat.eqb i (n - 4)))%bool then nth i shape 0 else 1) (seq 0 n).

(* a mask shape broadcasts against (coil :: shape) when every axis is 1 or equal *)
Fixpoint broadcasts (m s : list Z) : bool :=
  match m, s with
  | [], [] => true
  | a :: m', b :: s' => ((a =? 1) || (a =? b)) && broadcasts m' s'
  | _, _ => false
  end.

(* ---- bisection on the slope (floats are represented by their ordinal among the representable values) ---- *)
Inductive bstep := SetMid | IfStallBreak | Work | IfTolBreak | Narrow.
Inductive outcome := Exit (lo hi : Z) | OutOfFuel.

Section Bisect.
Variable mid : Z -> Z -> Z.                (* floating-point midpoint of two ordinals *)
Variable verdict : Z -> option bool.       (* None = within tolerance; Some true = actual < wanted (raise lower bound) *)

(* one trip around the loop body described by [prog]; returns the new bounds or None when the loop is left *)
Fixpoint body (prog : list bstep) (lo hi m : Z) : option (Z * Z) :=
  match prog with
  | [] => Some (lo, hi)
  | SetMid :: r => body r lo hi (mid lo hi)
  | IfStallBreak :: r => if (m =? lo) || (m =? hi) then None else body r lo hi m
  | Work :: r => body r lo hi m
  | IfTolBreak :: r => match verdict m with None => None | Some _ => body r lo hi m end
  | Narrow :: r => match verdict m with
                   | Some true => body r m hi m
                   | _ => body r lo m m
                   end
  end.

Fixpoint bisect (fuel : nat) (prog : list bstep) (lo hi : Z) : outcome :=
  match fuel with
  | O => OutOfFuel
  | S f => if lo <? hi then
             match body prog lo hi lo with
             | None => Exit lo hi
             | Some (lo', hi') => bisect f prog lo' hi'
             end
           else Exit lo hi
  end.
End Bisect.

Definition safe_bisect : list bstep := [SetMid; IfStallBreak; Work; IfTolBreak; Narrow].
Definition unguarded_bisect : list bstep := [SetMid; Work; IfTolBreak; Narrow].

(* ---- rejection loop `while count <= c: draw; if in range and free: set, count += 1` on a candidate stream ---- *)
Fixpoint reject (stream : list Z) (n : Z) (mask : list Z) (need : nat) : option (list Z) :=
  match need with
  | O => Some mask
  | S k => match stream with
           | [] => None                      (* the real loop would keep drawing *)
           | x :: rest => if (0 <=? x) && (x <? n) && negb (existsb (Z.eqb x) mask)
                          then reject rest n (x :: mask) k
                          else reject rest n mask need
           end
  end.
