(* C15 — checkpoint files as a small file system with crash semantics, and the load('latest') protocol
   (hand-written; no proofs here). *)
From DV Require Import Base.Tactics.

Inductive path := Ckpt (it : Z) | TmpCkpt (it : Z) | Ptr | TmpPtr.
Definition path_eqb (p q : path) : bool :=
  match p, q with
  | Ckpt a, Ckpt b => (a =? b)%Z
  | TmpCkpt a, TmpCkpt b => (a =? b)%Z
  | Ptr, Ptr => true
  | TmpPtr, TmpPtr => true
  | _, _ => false
  end.

Section FS.
Variable D : Type.                    (* the checkpointed training state (model, optimiser, scheduler, scaler) *)

(* what a file holds: a complete serialised state, a complete iteration number, or something unparsable
   (empty after truncation, or a partial write) *)
Inductive content := Full (d : D) | Num (n : Z) | Torn.
Definition fs := path -> option content.
Definition upd (f : fs) (p : path) (v : option content) : fs := fun q => if path_eqb q p then v else f q.

Inductive eff :=
  | OpenTrunc (p : path)               (* open(p, "w"/"wb"): the file exists and is empty *)
  | WriteAll (p : path) (c : content)  (* the whole content reaches the file *)
  | Close (p : path)
  | Replace (src dst : path).          (* os.replace: atomic *)

Definition apply (e : eff) (f : fs) : fs :=
  match e with
  | OpenTrunc p => upd f p (Some Torn)
  | WriteAll p c => upd f p (Some c)
  | Close _ => f
  | Replace a b => upd (upd f b (f a)) a None
  end.
Definition apply_all (l : list eff) (f : fs) : fs := fold_left (fun f e => apply e f) l f.

(* the process dies at any point: some prefix of the effects was executed; the write in progress may be partial *)
Fixpoint crash_states (l : list eff) (f : fs) : list fs :=
  f :: match l with
       | [] => []
       | e :: t => (match e with WriteAll p _ => [upd f p (Some Torn)] | _ => [] end) ++ crash_states t (apply e f)
       end.

(* Checkpointer.load("latest") *)
Inductive loaded := NoCheckpoint | Ok (it : Z) (d : D) | Corrupt.
Definition load_latest (f : fs) : loaded :=
  match f Ptr with
  | None => NoCheckpoint
  | Some (Num it) => match f (Ckpt it) with Some (Full d) => Ok it d | _ => Corrupt end
  | Some _ => Corrupt
  end.

(* publish-by-rename protocol *)
Definition save_atomic (it : Z) (d : D) : list eff :=
  [ OpenTrunc (TmpCkpt it); WriteAll (TmpCkpt it) (Full d); Close (TmpCkpt it); Replace (TmpCkpt it) (Ckpt it);
    OpenTrunc TmpPtr; WriteAll TmpPtr (Num it); Close TmpPtr; Replace TmpPtr Ptr ].

(* the protocol of the pinned tree (kept for the refutation witness) *)
Definition save_in_place (it : Z) (d : D) : list eff :=
  [ OpenTrunc (Ckpt it); WriteAll (Ckpt it) (Full d); Close (Ckpt it);
    OpenTrunc Ptr; WriteAll Ptr (Num it); Close Ptr ].
End FS.

Arguments Full {D} d.
Arguments Num {D} n.
Arguments Torn {D}.
Arguments OpenTrunc {D} p.
Arguments WriteAll {D} p c.
Arguments Close {D} p.
Arguments Replace {D} src dst.
Arguments NoCheckpoint {D}.
Arguments Ok {D} it d.
Arguments Corrupt {D}.
