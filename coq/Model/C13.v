(* C13 — executable model of direct.utils.chunks and direct.data.samplers (hand-written, no proofs here).
   Indices, lengths and ranks are [nat]: they are list positions. *)
From DV Require Import Base.Tactics Base.ListAux.

(* utils/__init__.py: chunks.  d, r = divmod(len, k);
   si = (d+1)*(idx if idx<r else r) + d*(0 if idx<r else idx-r); yield l[si : si + (d+1 if idx<r else d)] *)
Definition chunk_si (len k idx : nat) : nat :=
  let d := len / k in let r := len mod k in
  (d + 1) * (if idx <? r then idx else r) + d * (if idx <? r then 0 else idx - r).
Definition chunk_sz (len k idx : nat) : nat :=
  if idx <? len mod k then len / k + 1 else len / k.
Definition chunks {A} (l : list A) (k : nat) : list (list A) :=
  map (fun idx => slice (chunk_si (length l) k idx) (chunk_sz (length l) k idx) l) (seq 0 k).

(* a dataset layout = number of slices of each volume, in file order; volume_indices = cumulative ranges *)
Fixpoint ranges_from (s : nat) (layout : list nat) : list (nat * nat) :=
  match layout with [] => [] | n :: t => (s, s + n) :: ranges_from (s + n) t end.
Definition rng (v : nat * nat) : list nat := seq (fst v) (snd v - fst v).

(* DistributedSequentialSampler.__init__ : limit = 0 encodes None/False (no limit) *)
Definition dss_volumes (layout : list nat) (k rank limit : nat) : option (list (nat * nat)) :=
  let vols := ranges_from 0 layout in
  let vols := match limit with 0 => vols | _ => firstn limit vols end in
  nth_error (chunks vols k) rank.
Definition dss_indices (layout : list nat) (k rank limit : nat) : option (list nat) :=
  option_map (fun vs => concat (map rng vs)) (dss_volumes layout k rank limit).

(* BatchVolumeSampler.  Persistent state: the end-of-volume list, batch size, number of batches.
   One iteration threads (batch, next_value, rest-of-end_of_volume). *)
Fixpoint bvs_go (bs : nat) (idxs : list nat) (batch : list nat) (nv : nat) (rest : list nat) : list (list nat) :=
  match idxs with
  | [] => match batch with [] => [] | _ => [batch] end
  | i :: tl =>
      let batch' := batch ++ [i] in
      let hit := (S i =? nv) in                       (* idx == next_value - 1 *)
      let nv' := if hit then match rest with [] => nv | r :: _ => r end else nv in
      let rest' := if hit then match rest with [] => [] | _ :: rs => rs end else rest in
      if (length batch' =? bs) || hit then batch' :: bvs_go bs tl [] nv' rest'
      else bvs_go bs tl batch' nv' rest'
  end.

Record bvs := { bvs_eov : list nat; bvs_bs : nat; bvs_num : nat }.
Definition ceil_div (n b : nat) : nat := (n + b - 1) / b.
Definition bvs_init (vols : list (nat * nat)) (bs : nat) : bvs :=
  {| bvs_eov := map snd vols; bvs_bs := bs;
     bvs_num := fold_right (fun v acc => ceil_div (snd v - fst v) bs + acc) 0 vols |}.
(* __iter__ : returns the batches and the object state afterwards; None = the Python code raises *)
Definition bvs_iter (b : bvs) (idxs : list nat) : option (list (list nat) * bvs) :=
  match bvs_eov b, idxs with
  | [], [] => Some ([], b)
  | [], _ :: _ => None
  | e :: rest, _ => Some (bvs_go (bvs_bs b) idxs [] e rest, b)
  end.
Fixpoint bvs_iter_n (n : nat) (b : bvs) (idxs : list nat) : option (list (list (list nat))) :=
  match n with
  | 0 => Some []
  | S m => match bvs_iter b idxs with
           | None => None
           | Some (out, b') => option_map (cons out) (bvs_iter_n m b' idxs)
           end
  end.

(* the whole evaluation path used by Engine.build_batch_sampler for inference *)
Definition eval_batches (layout : list nat) (k rank limit bs iters : nat) : option (list (list (list nat)) * nat) :=
  match dss_volumes layout k rank limit with
  | None => None
  | Some vols =>
      let b := bvs_init vols bs in
      option_map (fun outs => (outs, bvs_num b)) (bvs_iter_n iters b (concat (map rng vols)))
  end.

(* ConcatDatasetBatchSampler.batch_sampler on a finite prefix of the member's index stream *)
Fixpoint cat_go (bs offset : nat) (stream : list nat) (batch : list nat) : list (list nat) :=
  match stream with
  | [] => match batch with [] => [] | _ => [batch] end
  | i :: tl => let batch' := batch ++ [i + offset] in
               if length batch' =? bs then batch' :: cat_go bs offset tl [] else cat_go bs offset tl batch'
  end.
Fixpoint cumsum_from (s : nat) (sizes : list nat) : list nat :=
  match sizes with [] => [] | n :: t => (n + s) :: cumsum_from (n + s) t end.
Definition member_offset (sizes : list nat) (idx : nat) : nat :=
  match idx with 0 => 0 | S j => nth j (cumsum_from 0 sizes) 0 end.

(* DistributedSampler.__iter__ : islice(stream, rank, None, world) on a finite prefix *)
Fixpoint stride_go (world : nat) (skip : nat) (l : list nat) : list nat :=
  match l with
  | [] => []
  | x :: tl => match skip with 0 => x :: stride_go world (world - 1) tl | S s => stride_go world s tl end
  end.
Definition stride (rank world : nat) (l : list nat) : list nat := stride_go world rank l.
