(* C18 — batch-wise structure of the normalisation blocks.

   A contiguous (b, c, h, w) tensor is the concatenation of its b samples, each the flat list of its c*h*w values.
   `x.reshape(b, groups, -1)` views it as rows of length m = c*h*w / groups; a reduction over the last axis with keepdim
   (mean, std) followed by a broadcast operation acts on every row by itself. [rows_op gn m] is that: [gn] is whatever is
   done to one row (for norm: subtract its mean, divide by its std; any function of the row alone). *)
From DV Require Import Base.Tactics Base.ListAux.

Section Rows.
Context {A St : Type}.
Variable gn : list A -> list A.

Definition rows_op (m : nat) (flat : list A) : list A := concat (map gn (chunk_list m flat)).
Definition batched (m : nat) (samples : list (list A)) : list A := rows_op m (concat samples).

(* statistics of the rows (mean, std per row: shape (b, groups, 1)) *)
Variable stat : list A -> St.
Definition row_stats (m : nat) (flat : list A) : list St := map stat (chunk_list m flat).

(* unnorm: x.reshape(b, groups, -1) * std + mean with one (mean, std) per row *)
Variable un : St -> list A -> list A.
Definition rows_un (m : nat) (stats : list St) (flat : list A) : list A :=
  concat (map (fun p => un (fst p) (snd p)) (combine stats (chunk_list m flat))).
End Rows.

(* which reshape / reduction a block uses: the view must keep the batch axis first and the reduction must stay inside a
   row (last axis of the 3-D view) *)
Inductive vdim := VBatch | VGroups | VRest | VChannels | VHeight | VWidth | VDepth | VOther.
Record normspec := { view : list vdim; reduce_axes : list Z; keepdim : bool; back : list vdim }.
Definition rows_spec (backshape : list vdim) : normspec :=
  {| view := [VBatch; VGroups; VRest]; reduce_axes := [(-1)%Z]; keepdim := true; back := backshape |}.
