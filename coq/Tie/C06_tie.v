(* C06 tie — the regenerated ACS arithmetic: requested size, centred, balanced; the disc is point-symmetric. *)
From DV Require Import Base.Tactics.
From G Require Import C06_gen C06_defs.
Open Scope Z_scope.

Lemma center_window N L : 0 <= L <= N -> 0 <= cm_lo N L /\ cm_hi N L = cm_lo N L + L /\ cm_hi N L <= N.
Proof. intros. cbv beta zeta delta [cm_lo cm_hi]. lia. Qed.

Lemma center_contains_dc N L : 1 <= L <= N -> cm_lo N L <= N / 2 < cm_hi N L.
Proof. intros. cbv beta zeta delta [cm_lo cm_hi]. lia. Qed.

Lemma center_balanced N L : 1 <= L <= N -> Z.abs ((N / 2 - cm_lo N L) - (cm_hi N L - 1 - N / 2)) <= 1.
Proof. intros. cbv beta zeta delta [cm_lo cm_hi]. lia. Qed.

Lemma magic_cap L0 target : 1 <= magic_L L0 target /\ magic_L L0 target <= Z.max L0 1 /\ magic_L L0 target <= Z.max target 1.
Proof. cbv beta zeta delta [magic_L]. lia. Qed.

Lemma disk_point_symmetric n m r x y : disk_in n m r x y = disk_in n m r (2 * (n / 2) - x) (2 * (m / 2) - y).
Proof.
  cbv beta zeta delta [disk_in].
  replace (2 * (n / 2) - x - n / 2) with (- (x - n / 2)) by lia.
  replace (2 * (m / 2) - y - m / 2) with (- (y - m / 2)) by lia.
  rewrite !Z.mul_opp_opp. reflexivity.
Qed.

Lemma disk_contains_centre n m r : disk_in n m r (n / 2) (m / 2) = (0 <? r * r).
Proof. cbv beta zeta delta [disk_in]. rewrite !Z.sub_diag. reflexivity. Qed.
