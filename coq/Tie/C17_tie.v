(* C17 tie — the regenerated padding arithmetic and index maps are the ones the shape theorems need. *)
From DV Require Import Base.Tactics Model.C17 Proofs.C17.
From G Require Import C17_gen C17_defs.
Local Open Scope Z_scope.

(* index maps: axis j (from the end) is padded through entry 2j+1 *)
Lemma cat_idx2_tie : gen_cat_idx2 = [1; 3]%nat. Proof. reflexivity. Qed.
Lemma cat_idx3_tie : gen_cat_idx3 = [1; 3; 5]%nat. Proof. reflexivity. Qed.
Lemma mw_pad_idx_tie : gen_mw_pad_idx = [1; 3]%nat. Proof. reflexivity. Qed.
Lemma dub_pad_idx_tie : gen_dub_pad_idx = [1; 3]%nat. Proof. reflexivity. Qed.

(* the layer sequence regenerated from the constructor and the two loops of forward is the modelled program *)
Lemma rep_app {A} a b (l : list A) : rep (a + b) l = rep a l ++ rep b l.
Proof. induction a as [|a IH]; cbn [rep Nat.add]; [reflexivity|]. rewrite IH, app_assoc. reflexivity. Qed.

Lemma unet2d_layers_tie L : gen_unet2d_layers L = unet_prog [1; 3]%nat L.
Proof.
  unfold gen_unet2d_layers, unet_prog, unet_down, unet_up, convblock, same3, one1. rewrite cat_idx2_tie.
  rewrite (rep_app 1 (L - 1)), (rep_app (L - 1) 1). cbn [rep app]. rewrite ?app_nil_r, <- ?app_assoc. cbn [app]. reflexivity.
Qed.
Lemma unet3d_layers_tie L : gen_unet3d_layers L = unet_prog [1; 3; 5]%nat L.
Proof.
  unfold gen_unet3d_layers, unet_prog, unet_down, unet_up, convblock, same3, one1. rewrite cat_idx3_tie.
  rewrite (rep_app 1 (L - 1)), (rep_app (L - 1) 1). cbn [rep app]. rewrite ?app_nil_r, <- ?app_assoc. cbn [app]. reflexivity.
Qed.

(* crop_to_shape keeps min(c, r) *)
Lemma crop_spec c r : 0 <= r -> (if c >? r then slice_len c 0 r else c) = crop_to c r.
Proof. intros H. unfold crop_to, slice_len, norm_idx. repeat case_if; lia. Qed.
Lemma mw_crop_tie c r : 0 <= r -> gen_mw_crop c r = crop_to c r. Proof. exact (crop_spec c r). Qed.
Lemma dub_crop_tie c r : 0 <= r -> gen_dub_crop c r = crop_to c r. Proof. exact (crop_spec c r). Qed.
Lemma didn_crop_tie c r : 0 <= r -> gen_didn_crop c r = crop_to c r. Proof. exact (crop_spec c r). Qed.

(* normalised U-Nets: padded to the next multiple of 16, and the slice undoes it *)
Lemma gen_nu_mult_tie n : gen_nu_mult n = nu_mult n. Proof. reflexivity. Qed.
Lemma gen_nu_total n : 1 <= n -> n + gen_nu_lo n + gen_nu_hi n = nu_mult n.
Proof. intros H. unfold gen_nu_lo, gen_nu_hi. fold (nu_mult n). lia. Qed.
Lemma gen_nu_back n : 1 <= n -> slice_len (nu_mult n) (gen_nu_start n (nu_mult n)) (gen_nu_stop n (nu_mult n)) = n.
Proof.
  intros H. pose proof (nu_mult_spec n H) as E. unfold gen_nu_start, gen_nu_stop, gen_nu_lo, gen_nu_hi, gen_nu_mult. fold (nu_mult n).
  unfold slice_len, norm_idx. rewrite E. repeat case_if; lia.
Qed.
Lemma gen_nu3_total n : 1 <= n -> n + gen_nu3_lo n + gen_nu3_hi n = nu_mult n.
Proof. intros H. unfold gen_nu3_lo, gen_nu3_hi. fold (nu_mult n). lia. Qed.
Lemma gen_nu3_back n : 1 <= n -> slice_len (nu_mult n) (gen_nu3_start n (nu_mult n)) (gen_nu3_stop n (nu_mult n)) = n.
Proof.
  intros H. pose proof (nu_mult_spec n H) as E. unfold gen_nu3_start, gen_nu3_stop, gen_nu3_lo, gen_nu3_hi, gen_nu3_mult. fold (nu_mult n).
  unfold slice_len, norm_idx. rewrite E. repeat case_if; lia.
Qed.
Lemma nu_mult_ge16 n : 1 <= n -> 16 <= nu_mult n.
Proof. intros H. rewrite nu_mult_spec by exact H. lia. Qed.

(* 3-D U-Net: every axis is brought up to 2^L, and the crop undoes it *)
Lemma gen_p2_total k n : 0 <= k -> 1 <= n -> n + gen_p2_lo k n + gen_p2_hi k n = Z.max n (2 ^ k).
Proof. intros Hk Hn. unfold gen_p2_lo, gen_p2_hi. case_if; lia. Qed.
Lemma gen_p2_back k n : 0 <= k -> 1 <= n ->
  slice_len (Z.max n (2 ^ k)) (gen_p2_start k n (Z.max n (2 ^ k))) (gen_p2_stop k n (Z.max n (2 ^ k))) = n.
Proof. intros Hk Hn. unfold slice_len, norm_idx, gen_p2_start, gen_p2_stop, gen_p2_lo, gen_p2_hi. repeat case_if; lia. Qed.

(* ---- the shape theorems over the regenerated pieces ---- *)
Lemma unet2d_gen L h w : 2 ^ Z.of_nat (Nat.max L 1) <= h -> 2 ^ Z.of_nat (Nat.max L 1) <= w -> out_dims (gen_unet2d L) [w; h] = Some [w; h].
Proof. unfold gen_unet2d. rewrite unet2d_layers_tie. apply unet2d_shape. Qed.

Lemma normunet2d_gen L h w : (L <= 4)%nat -> 1 <= h -> 1 <= w -> out_dims (gen_normunet2d L) [w; h] = Some [w; h].
Proof.
  intros HL Hh Hw. unfold gen_normunet2d. rewrite unet2d_layers_tie.
  apply (padded_unet2d gen_nu_lo gen_nu_hi gen_nu_start gen_nu_stop nu_mult gen_nu_total gen_nu_back); try assumption.
  intros n Hn. pose proof (nu_mult_ge16 n Hn). assert (2 ^ Z.of_nat (Nat.max L 1) <= 16); [|lia].
  change 16 with (2 ^ Z.of_nat 4). apply Z.pow_le_mono_r; lia.
Qed.

Lemma mwcnn_gen sc h w : (1 <= sc)%nat -> 2 ^ Z.of_nat sc <= h -> 2 ^ Z.of_nat sc <= w -> out_dims (gen_mwcnn sc) [w; h] = Some [w; h].
Proof. unfold gen_mwcnn. rewrite mw_pad_idx_tie. apply mwcnn2d_shape. Qed.

Lemma didn_gen D R h w : 3 <= h -> 3 <= w -> out_dims (gen_didn D R) [w; h] = Some [w; h].
Proof. unfold gen_didn. rewrite dub_pad_idx_tie. apply didn2d_shape. Qed.

Lemma unet3d_gen L z h w : (1 <= L)%nat -> 1 <= z -> 1 <= h -> 1 <= w -> out_dims (gen_unet3d L) [w; h; z] = Some [w; h; z].
Proof.
  intros HL Hz Hh Hw. unfold gen_unet3d. rewrite unet3d_layers_tie.
  apply (padded_unet3d _ _ _ _ (fun n => Z.max n (2 ^ Z.of_nat L))); try assumption.
  - intros n Hn. apply gen_p2_total; lia.
  - intros n Hn. apply gen_p2_back; lia.
  - intros n Hn. lia.
Qed.

(* one axis of the nested 3-D normalised U-Net *)
Lemma normunet3d_axis L n s i : (1 <= L <= 4)%nat -> 1 <= n ->
  run1 (padded_prog gen_nu3_lo gen_nu3_hi gen_nu3_start gen_nu3_stop
          (padded_prog (gen_p2_lo (Z.of_nat L)) (gen_p2_hi (Z.of_nat L)) (gen_p2_start (Z.of_nat L)) (gen_p2_stop (Z.of_nat L)) (unet_prog [1; 3; 5]%nat L)))
       (mk n s i) = Some (mk n s i).
Proof.
  intros HL Hn. pose proof (nu_mult_ge16 n Hn) as H16.
  apply (padded1 _ _ _ _ _ n s i (nu_mult n)); [apply gen_nu3_total; exact Hn| |apply gen_nu3_back; exact Hn].
  apply (padded1 _ _ _ _ _ (nu_mult n) _ _ (Z.max (nu_mult n) (2 ^ Z.of_nat L))); [apply gen_p2_total; lia| |apply gen_p2_back; lia].
  apply unet1_shape. replace (Nat.max L 1) with L by lia. lia.
Qed.

Lemma normunet3d_gen L z h w : (1 <= L <= 4)%nat -> 1 <= z -> 1 <= h -> 1 <= w -> out_dims (gen_normunet3d L) [w; h; z] = Some [w; h; z].
Proof.
  intros HL Hz Hh Hw. unfold gen_normunet3d, gen_unet3d. rewrite unet3d_layers_tie. unfold out_dims, start. cbn [map].
  rewrite run_decomp3 by (apply canon_padded, canon_padded, (canon_unet 3)).
  rewrite !normunet3d_axis by assumption. reflexivity.
Qed.
