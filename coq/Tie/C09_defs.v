(* C09 executable instance over Q with an exact square root (used on inputs whose sum of squares is a perfect square). *)
From DV Require Import Base.Tactics.
From Coq Require Import QArith.

Definition qsqrt_exact (q : Q) : Q := let r := Qred q in (Z.sqrt (Qnum r) # Pos.of_nat (Z.to_nat (Z.sqrt (Z.pos (Qden r))))).
Definition qsdiv (x y : Q) : Q := if Qeq_bool y 0 then 0%Q else (x / y)%Q.
Definition qsumsq (l : list (Q * Q)) : Q := fold_right (fun a acc => (fst a * fst a + snd a * snd a + acc)%Q) 0%Q l.
Definition qnormalise (l : list (Q * Q)) : list (Q * Q) :=
  let n := qsqrt_exact (qsumsq l) in map (fun a => (qsdiv (fst a) n, qsdiv (snd a) n)) l.
Definition engine_q (l : list (Q * Q)) := qnormalise l.
Definition rss_q (l : list (Q * Q)) := qnormalise (qnormalise l).
Definition qpair (p : Q * Q) : (Z * Z) * (Z * Z) :=
  let a := Qred (fst p) in let b := Qred (snd p) in ((Qnum a, Z.pos (Qden a)), (Qnum b, Z.pos (Qden b))).
