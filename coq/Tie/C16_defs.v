(* C16 executable instance: the regenerated loop body run over Q with SGD and the harness' schedule. *)
From DV Require Import Base.Tactics Model.C16.
From Coq Require Import QArith.
From G Require Import C16_gen.

Definition step_due (it k : nat) : bool := step_due_z (Z.of_nat it) (Z.of_nat k).

Definition lr_q (lr0 : Q) (e : nat) : Q := lr0 / inject_Z (2 ^ Z.of_nat (e / 3)).
Definition run_q (k : nat) (clipping : bool) (n : nat) (grads : list Q) (lr0 : Q) : (Z * Z) * nat :=
  let s := run_from Q Q (fun it _ => nth it grads 0%Q) 0%Q Qplus (fun k g => g / inject_Z (Z.of_nat k))%Q (fun g => g)
             (fun w g e => w - lr_q lr0 e * g)%Q step_due loop_body k clipping 0 n
             {| params := 0%Q; grad := 0%Q; epoch := 0 |} in
  let w := Qred (params s) in ((Qnum w, Z.pos (Qden w)), epoch s).
