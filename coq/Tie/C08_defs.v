(* C08 executable definitions for the correspondence run: homogeneity degree of every key after every stage. *)
From DV Require Import Base.Tactics Model.C08.
From G Require Import C08_gen.

(* build_mri_transforms for the self-supervised type: the supervised list with delete_acs_mask / delete_kspace off, the flag,
   then the regenerated tail *)
Definition ssl_cfg (x : cfg) : cfg :=
  Build_cfg (c_crop x) (c_rescale x) (c_pad x) (c_rot x) (c_flip x) (c_reverse x) (c_zero_pad x) (c_mask x) (c_compress x) (c_pad_coils x)
            (c_body x) (c_sens x) false false (c_scaling x) (c_percentile x) (c_recon_sense x).
Definition gen_ssl (x : cfg) : list stage := gen_stages (ssl_cfg x) ++ [SFlag IsSSL] ++ gen_ssl_tail x.

Definition deg_of (t : tm) : Z := match tdeg t with Some d => Z.of_nat d | None => (-2)%Z end.
Definition show_env (e : env) : list (nat * Z) :=
  map (fun kt => (key_idx (fst kt), deg_of (snd kt))) (filter (fun kt => negb (key_eqb (fst kt) IsSSL)) e).
Fixpoint trace (p : list stage) (e : env) (acc : list (list (nat * Z))) : bool * list (list (nat * Z)) :=
  match p with
  | [] => (true, rev acc)
  | s :: r => match sym_step s e with Some e' => trace r e' (show_env e' :: acc) | None => (false, rev acc) end
  end.
Definition deg_trace (p : list stage) := trace p [(Kspace, TRaw Kspace)] [].
