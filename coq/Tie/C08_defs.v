(* C08 executable definitions for the correspondence run: homogeneity degree of every key after every stage. *)
From DV Require Import Base.Tactics Model.C08.
From G Require Import C08_gen.

Definition deg_of (t : tm) : Z := match tdeg t with Some d => Z.of_nat d | None => (-2)%Z end.
Definition show_env (e : env) : list (nat * Z) :=
  map (fun kt => (key_idx (fst kt), deg_of (snd kt))) (filter (fun kt => negb (key_eqb (fst kt) IsSSL)) e).
Fixpoint trace (p : list stage) (e : env) (acc : list (list (nat * Z))) : bool * list (list (nat * Z)) :=
  match p with
  | [] => (true, rev acc)
  | s :: r => match sym_step s e with Some e' => trace r e' (show_env e' :: acc) | None => (false, rev acc) end
  end.
Definition deg_trace (p : list stage) := trace p [(Kspace, TRaw Kspace)] [].
