(* C10 tie — the regenerated arithmetic of center_crop / pad_tensor / complex_center_crop (G.C10_gen) composed
   with the list model; the lemmas below are re-proved against the regenerated definitions on every run. *)
From DV Require Import Base.Tactics Base.NList Model.C10 Proofs.C10.
From G Require Import C10_gen C10_defs.
Open Scope Z_scope.

(* --- centre crop: guard and window --- *)
Lemma cc_guard_spec n2 n1 m2 m1 : cc_raises n2 n1 m2 m1 = false <-> (0 < m2 <= n2 /\ 0 < m1 <= n1).
Proof. cbv beta zeta delta [cc_raises]. lia. Qed.

Lemma cc_window_spec n2 n1 m2 m1 : 0 < m2 <= n2 -> 0 < m1 <= n1 ->
  cc_lo2 n2 n1 m2 m1 = (n2 - m2) / 2 /\ cc_hi2 n2 n1 m2 m1 = (n2 - m2) / 2 + m2 /\
  cc_lo1 n2 n1 m2 m1 = (n1 - m1) / 2 /\ cc_hi1 n2 n1 m2 m1 = (n1 - m1) / 2 + m1 /\
  0 <= cc_lo2 n2 n1 m2 m1 /\ cc_hi2 n2 n1 m2 m1 <= n2 /\ 0 <= cc_lo1 n2 n1 m2 m1 /\ cc_hi1 n2 n1 m2 m1 <= n1.
Proof. cbv beta zeta delta [cc_lo2 cc_hi2 cc_lo1 cc_hi1]. intros. lia. Qed.

(* --- pad_tensor: where the data lands, per axis, in F.pad's convention (last axis first) --- *)
Lemma pad_list2_spec t0 t1 i0 i1 : 0 <= i0 <= t0 -> 0 <= i1 <= t1 ->
  exists l1 r1 l0 r0, pad_list2 t0 t1 i0 i1 = [l1; r1; l0; r0] /\
    l0 = (t0 - i0) / 2 /\ l0 + i0 + r0 = t0 /\ 0 <= r0 /\
    l1 = (t1 - i1) / 2 /\ l1 + i1 + r1 = t1 /\ 0 <= r1.
Proof. intros H0 H1. cbv beta zeta delta [pad_list2]. do 4 eexists. split; [reflexivity|]. lia. Qed.

Lemma pad_list3_spec t0 t1 t2 i0 i1 i2 : 0 <= i0 <= t0 -> 0 <= i1 <= t1 -> 0 <= i2 <= t2 ->
  exists l2 r2 l1 r1 l0 r0, pad_list3 t0 t1 t2 i0 i1 i2 = [l2; r2; l1; r1; l0; r0] /\
    l0 = (t0 - i0) / 2 /\ l0 + i0 + r0 = t0 /\ 0 <= r0 /\
    l1 = (t1 - i1) / 2 /\ l1 + i1 + r1 = t1 /\ 0 <= r1 /\
    l2 = (t2 - i2) / 2 /\ l2 + i2 + r2 = t2 /\ 0 <= r2.
Proof. intros H0 H1 H2. cbv beta zeta delta [pad_list3]. do 6 eexists. split; [reflexivity|]. lia. Qed.

(* --- zero-padding to a larger shape followed by a centre crop back returns the data (2-D, any sizes) --- *)
Lemma pad_then_center_crop_id {A} (v : A) (x : nl 2 A) (h w H W : nat) :
  rect 2 [h; w] x -> (0 < h <= H)%nat -> (0 < w <= W)%nat ->
  center_crop_gen 0 (Z.of_nat H) (Z.of_nat W) (Z.of_nat h) (Z.of_nat w)
    (pad_tensor_gen2 2 (Z.of_nat H) (Z.of_nat W) (Z.of_nat h) (Z.of_nat w) v x) = Some x.
Proof.
  intros Hr Hh Hw. unfold center_crop_gen.
  assert (G : cc_raises (Z.of_nat H) (Z.of_nat W) (Z.of_nat h) (Z.of_nat w) = false) by (apply cc_guard_spec; lia).
  rewrite G. f_equal. cbn [deep]. unfold center_crop2_gen, pad_tensor_gen2, fpad.
  destruct (cc_window_spec (Z.of_nat H) (Z.of_nat W) (Z.of_nat h) (Z.of_nat w)) as (E2 & F2 & E1 & F1 & _); [lia|lia|].
  destruct (pad_list2_spec (Z.of_nat H) (Z.of_nat W) (Z.of_nat h) (Z.of_nat w)) as (l1 & r1 & l0 & r0 & EP & L0 & S0 & R0 & L1 & S1 & R1); [lia|lia|].
  rewrite EP, E2, F2, E1, F1.
  replace ((Z.of_nat H - Z.of_nat h) / 2 + Z.of_nat h - (Z.of_nat H - Z.of_nat h) / 2) with (Z.of_nat h) by lia.
  replace ((Z.of_nat W - Z.of_nat w) / 2 + Z.of_nat w - (Z.of_nat W - Z.of_nat w) / 2) with (Z.of_nat w) by lia.
  rewrite !Nat2Z.id. rewrite <- L0, <- L1.
  pose proof (window_nd_pad_nd 2 (fpad_pairs 2 [l1; r1; l0; r0]) [h; w] v x Hr) as K.
  cbn [window_nd hd tl map fst] in K.
  unfold fpad_pairs in *. cbn [pairs rev app length Nat.sub repeat map fst hd tl] in K |- *.
  etransitivity; [|exact K]. clear K.
  unfold window. rewrite skipn_map, firstn_map.
  apply map_ext. intros y. rewrite map_id. reflexivity.
Qed.

(* --- complex_center_crop: start index = floor of half the size difference; box lies inside the data --- *)
Lemma ccc_spec n m : 0 < m <= n -> ccc_start n m = (n - m) / 2 /\ ccc_size n m = m /\ 0 <= ccc_start n m /\ ccc_start n m + ccc_size n m <= n.
Proof. cbv beta zeta delta [ccc_start ccc_size]. intros. lia. Qed.

(* the guard of complex_center_crop (every start index non-negative) rejects exactly the crops that do not fit: the
   floor of a negative half difference is negative, also for a difference of -1 *)
Lemma ccc_guard_spec na nb ma mb : ccc_raises na nb ma mb = false <-> (ma <= na /\ mb <= nb).
Proof. cbv beta zeta delta [ccc_raises]. lia. Qed.
