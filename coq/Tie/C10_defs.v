(* C10 executable definitions over the regenerated arithmetic (used by proofs and by the correspondence run). *)
From DV Require Import Base.Tactics Base.NList Model.C10.
From G Require Import C10_gen.
Open Scope Z_scope.

(* executable wrappers used by the correspondence run *)
Definition center_crop2_gen {A} (n2 n1 m2 m1 : Z) (x : nl 2 A) : nl 2 A :=
  map (window (Z.to_nat (cc_lo1 n2 n1 m2 m1)) (Z.to_nat (cc_hi1 n2 n1 m2 m1 - cc_lo1 n2 n1 m2 m1)))
      (window (Z.to_nat (cc_lo2 n2 n1 m2 m1)) (Z.to_nat (cc_hi2 n2 n1 m2 m1 - cc_lo2 n2 n1 m2 m1)) x).
Definition center_crop_gen {A} (d : nat) (n2 n1 m2 m1 : Z) (t : nl (d + 2) A) : option (nl (d + 2) A) :=
  if cc_raises n2 n1 m2 m1 then None else Some (deep d 2 (center_crop2_gen n2 n1 m2 m1) t).
Definition pad_tensor_gen2 {A} (r : nat) (t0 t1 i0 i1 : Z) (v : A) (t : nl r A) : nl r A := fpad r (pad_list2 t0 t1 i0 i1) v t.
Definition pad_tensor_gen3 {A} (r : nat) (t0 t1 t2 i0 i1 i2 : Z) (v : A) (t : nl r A) : nl r A := fpad r (pad_list3 t0 t1 t2 i0 i1 i2) v t.
Definition complex_center_crop_gen (r : nat) (cs ss : list Z) (t : nl r Z) : option (nl r Z) :=
  if forallb (fun c => 0 <=? c) cs then Some (crop_nd r cs ss 0 t) else None.

