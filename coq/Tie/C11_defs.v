(* C11 executable per-cell model of the three splitters over the regenerated boolean expressions. *)
From DV Require Import Base.Tactics.
From G Require Import C11_gen.

Fixpoint zip4 (a b c d : list bool) : list (bool * bool * bool * bool) :=
  match a, b, c, d with
  | x :: a', y :: b', z :: c', w :: d' => (x, y, z, w) :: zip4 a' b' c' d'
  | _, _, _, _ => []
  end.

(* m = sampling mask, a = acs mask, r = cell inside the protected region, t = cell chosen by the fill routine *)
Definition g_cell (keep : bool) (c : bool * bool * bool * bool) : bool * bool :=
  let '(m, a, r, t) := c in
  let m' := if keep then g_minus_acs m a else m in
  let i := g_input m' t in
  if keep then (g_keep_in i a, g_keep_tg t a) else (i, t).
Definition u_cell (keep : bool) (c : bool * bool * bool * bool) : bool * bool :=
  let '(m, a, r, t) := c in
  let m' := if keep then u_minus_acs m a else m in
  let i := u_input m' t in
  if keep then (u_keep_in i a, u_keep_tg t a) else (i, t).
(* t = the cell lies on the input side of the half split *)
Definition h_cell (keep : bool) (c : bool * bool * bool * bool) : bool * bool :=
  let '(m, a, r, t) := c in
  let i := h_input m t (if keep then false else r) in
  let g := h_target m t (if keep then false else r) in
  if keep then (orb i a, orb g a) else (i, g).

Definition run_model (f : bool -> bool * bool * bool * bool -> bool * bool) keep m a r t : list bool * list bool :=
  let cells := map (f keep) (zip4 m a r t) in (map fst cells, map snd cells).
Definition g_model := run_model g_cell.
Definition u_model := run_model u_cell.
Definition half_model := run_model h_cell.
