(* C07 executable definitions: realised Gaussian counts with round-half-even over Q. *)
From DV Require Import Base.Tactics.
From Coq Require Import QArith Qround.
From G Require Import C07_gen.

(* numpy.round: nearest integer, ties to even *)
Definition round_half_even (x : Q) : Z :=
  let f := Qfloor x in
  let d := Qcompare (x - inject_Z f) (1 # 2) in
  match d with Lt => f | Gt => (f + 1)%Z | Eq => if Z.even f then f else (f + 1)%Z end.
Definition g1d_total (N R : Q) (L : Z) : Z := (L + round_half_even (g1d_arg N R (inject_Z L)) + kernel_extra)%Z.
Definition g2d_total (N M R : Q) (L : Z) : Z := (L + round_half_even (g2d_arg N M R (inject_Z L)) + kernel_extra)%Z.
