(* C15 tie — the regenerated save trace is the publish-by-rename protocol; the regenerated label arithmetic makes a
   resume start exactly where the saved state stands. *)
From DV Require Import Base.Tactics Model.C15 Proofs.C15.
From G Require Import C15_gen C15_defs.
Open Scope Z_scope.

Lemma save_trace_is_atomic (D : Type) it (d : D) : save_trace D it d = save_atomic D it d.
Proof. reflexivity. Qed.

(* a checkpoint written on an exception path in iteration [it] holds the state before that iteration:
   resuming from its label must restart at [it] *)
Lemma kill_labels_resume it : Forall (fun l => resume_start (kill_saved_label l) = it) (kill_labels it).
Proof. cbv beta zeta delta [kill_labels resume_start kill_saved_label]. repeat constructor; lia. Qed.

Lemma kill_labels_nonempty it : kill_labels it <> [].
Proof. cbv beta zeta delta [kill_labels]. discriminate. Qed.

(* a regular checkpoint is written after the update of iteration [it]: resuming restarts at [it + 1] *)
Lemma reg_label_resume it : resume_start (reg_label it) = it + 1 /\ reg_save_after_update = true.
Proof. cbv beta zeta delta [resume_start reg_label reg_save_after_update]. split; [lia|reflexivity]. Qed.
