(* C07 tie — the regenerated budget expressions give the requested acceleration. *)
From DV Require Import Base.Tactics.
From Coq Require Import QArith Qfield Qabs Lqa.
From G Require Import C07_gen.
Local Open Scope Q_scope.

(* random line masks: every non-ACS column is kept with probability prob; the expected number of columns is N / R *)
Lemma random_expected N R L : ~ N - L == 0 -> ~ R == 0 -> L + (N - L) * random_prob N R L == N / R.
Proof. intros H1 H2. unfold random_prob. field. split; assumption. Qed.

Lemma random_prob_range N R L : 0 < R -> L < N -> L <= N / R -> N / R <= N -> 0 <= random_prob N R L <= 1.
Proof.
  intros HR HL H1 H2. unfold random_prob.
  assert (Hd : 0 < N - L) by lra.
  split.
  - apply Qle_shift_div_l; [exact Hd|]. lra.
  - apply Qle_shift_div_r; [exact Hd|]. lra.
Qed.

(* equispaced masks: spacing the N - L non-ACS columns by the adjusted acceleration yields N / R - L of them *)
Lemma equispaced_adjusted N R L : ~ R == 0 -> ~ N - L == 0 -> ~ L * R - N == 0 ->
  (N - L) / equi_adjusted N R L == N / R - L.
Proof. intros H1 H2 H3. unfold equi_adjusted. field. repeat split; try assumption. intros E. apply H2. lra. Qed.

(* Gaussian masks: ACS + round(N/R - L - 1) + the kernel's extra cell is within half a sample of N / R, for any
   rounding to the nearest integer *)
Lemma gaussian1d_budget (rnd : Q -> Z) N R L : (forall x, Qabs (inject_Z (rnd x) - x) <= 1 # 2) ->
  Qabs (inject_Z (L + rnd (g1d_arg N R (inject_Z L)) + kernel_extra) - N / R) <= 1 # 2.
Proof.
  intros Hr. unfold g1d_arg, kernel_extra. specialize (Hr (N / R - inject_Z L - inject_Z 1)).
  rewrite !inject_Z_plus.
  set (c := inject_Z (rnd (N / R - inject_Z L - inject_Z 1))) in *.
  assert (E : inject_Z L + c + inject_Z 1 - N / R == c - (N / R - inject_Z L - inject_Z 1)) by ring.
  rewrite E. exact Hr.
Qed.

Lemma gaussian2d_budget (rnd : Q -> Z) N M R L : (forall x, Qabs (inject_Z (rnd x) - x) <= 1 # 2) ->
  Qabs (inject_Z (L + rnd (g2d_arg N M R (inject_Z L)) + kernel_extra) - N * M / R) <= 1 # 2.
Proof.
  intros Hr. unfold g2d_arg, kernel_extra. specialize (Hr (N * M / R - inject_Z L - inject_Z 1)).
  rewrite !inject_Z_plus.
  set (c := inject_Z (rnd (N * M / R - inject_Z L - inject_Z 1))) in *.
  assert (E : inject_Z L + c + inject_Z 1 - N * M / R == c - (N * M / R - inject_Z L - inject_Z 1)) by ring.
  rewrite E. exact Hr.
Qed.

(* what N, R, L and the centre mask are, where the formulas are used: the translator executes each mask_func symbolically
   and emits these lines only after checking the corresponding facts on the value trees (the shape entries, the seeded
   (centre fraction, acceleration) choice, the requested ACS size handed to center_mask_func, the centre disc whose own
   size is subtracted); the lemmas pin the wording, so that a translator that stops checking one of them is noticed *)
From Coq Require Import String.
Local Open Scope string_scope.
Lemma random_bindings_pinned : random_bindings =
  ["N = shape[-2]"; "R = self.choose_acceleration()[1]";
   "L = int(round((shape[-2] * self.choose_acceleration()[0]))) if self.choose_acceleration()[0] < 1.0 else int(self.choose_acceleration()[0])";
   "ACS = center_mask_func(N, L)"].
Proof. reflexivity. Qed.
Lemma equi_bindings_pinned : equi_bindings =
  ["N = shape[-2]"; "R = self.choose_acceleration()[1]";
   "L = int(round((shape[-2] * self.choose_acceleration()[0]))) if self.choose_acceleration()[0] < 1.0 else int(self.choose_acceleration()[0])";
   "ACS = center_mask_func(N, L)"].
Proof. reflexivity. Qed.
Lemma g1d_bindings_pinned : g1d_bindings =
  ["N = shape[-2]"; "R = self.choose_acceleration()[1]"; "L = int(round((shape[-2] * self.choose_acceleration()[0])))";
   "ACS = center_mask_func(N, L)"; "kernel width = N"].
Proof. reflexivity. Qed.
Lemma g2d_bindings_pinned : g2d_bindings =
  ["M, N = shape[-3], shape[-2]"; "R = self.choose_acceleration()[1]";
   "disc = centered_disk_mask((shape[-3], shape[-2]), self.choose_acceleration()[0])";
   "L = disc.sum() (the frame's own copy in dynamic / multislice mode)"; "kernel grid = M x N"].
Proof. reflexivity. Qed.
