(* C14 tie — the regenerated loop body is the statement list whose refinement of the state machine is proved. *)
From DV Require Import Base.Tactics Model.C14 Model.C14_skel Proofs.C14_skel.
From G Require Import C14_gen.

Lemma gen_body_tie : gen_body = spec_body.
Proof. reflexivity. Qed.
