(* C14 tie — one iteration of the regenerated loop body is, for every file name, batch and state, the same state
   transformer (same new state, same yields, same failures) as one iteration of the reference body whose refinement of the
   state machine is proved in Proofs/C14_skel.v.  The tie is semantic: a body with `elif`, early guards in another
   order or extra no-op guards passes as long as the case analysis below closes. *)
From DV Require Import Base.Tactics Model.C14 Model.C14_skel Proofs.C14_skel.
From G Require Import C14_gen.

Ltac c14_step := cbn [exec exec1 holds zlast zbuf zcounter zvsz negb].
Ltac c14_case :=
  match goal with
  | |- context [if ?x then _ else _] => destruct x eqn:?
  | |- context [match ?x with Some _ => _ | None => _ end] =>
      match x with
      | exec _ _ _ _ _ _ _ _ _ _ => fail 1
      | exec1 _ _ _ _ _ _ _ _ _ _ => fail 1
      | _ => destruct x eqn:?
      end
  end.

Lemma gen_body_tie (Name Out : Type) (name_eqb : Name -> Name -> bool) (vsize : Name -> nat) :
  (forall a b, name_eqb a b = true <-> a = b) ->
  forall fname outs z,
    exec Name Out name_eqb vsize 3 gen_body fname outs z [] = exec Name Out name_eqb vsize 2 spec_body fname outs z [].
Proof.
  intros Hs fname outs [l b c v].
  assert (Hrefl : forall a, name_eqb a a = true) by (intros a; apply Hs; reflexivity).
  unfold gen_body, spec_body.
  destruct l as [l|]; [destruct (name_eqb l fname) eqn:E|]; destruct b as [b|]; c14_step;
    rewrite ?E, ?Hrefl; c14_step;
    repeat (first [reflexivity | c14_case; c14_step; rewrite ?E, ?Hrefl; c14_step]);
    try reflexivity; try congruence.
Qed.
