(* C02 tie — the regenerated complex-pair expressions satisfy the laws of complex arithmetic over any field. *)
From DV Require Import Base.Tactics.
From Coq Require Import Field Permutation.
From G Require Import C02_gen.

Section Laws.
Variable R : Type.
Variables (rO rI : R) (radd rmul rsub rdiv : R -> R -> R) (ropp rinv : R -> R) (is0 : R -> bool).
Hypothesis Rfield : field_theory rO rI radd rmul rsub ropp rdiv rinv (@eq R).
Hypothesis is0_spec : forall x, is0 x = true <-> x = rO.
Add Field Rf : Rfield.

Notation "a + b" := (radd a b). Notation "a * b" := (rmul a b). Notation "a - b" := (rsub a b).
Notation "- a" := (ropp a). Notation "a / b" := (rdiv a b). Notation "0" := rO. Notation "1" := rI.

Notation cmulr := (cmul_re R rO rI radd rmul rsub rdiv ropp is0). Notation cmuli := (cmul_im R rO rI radd rmul rsub rdiv ropp is0).
Notation conjr := (conj_re R rO rI radd rmul rsub rdiv ropp is0). Notation conji := (conj_im R rO rI radd rmul rsub rdiv ropp is0).
Notation msq := (modsq R rO rI radd rmul rsub rdiv ropp is0).
Notation cdivr := (cdiv_re R rO rI radd rmul rsub rdiv ropp is0). Notation cdivi := (cdiv_im R rO rI radd rmul rsub rdiv ropp is0).
Notation cden := (cdiv_den R rO rI radd rmul rsub rdiv ropp is0).

(* multiplication is the complex product *)
Lemma cmul_spec a0 a1 b0 b1 : cmulr a0 a1 b0 b1 = a0 * b0 - a1 * b1 /\ cmuli a0 a1 b0 b1 = a0 * b1 + a1 * b0.
Proof. cbv beta zeta delta [cmul_re cmul_im]. split; ring. Qed.

Lemma conj_spec a0 a1 : conjr a0 a1 = a0 /\ conji a0 a1 = - a1.
Proof. cbv beta zeta delta [conj_re conj_im]. split; ring. Qed.

Lemma cmul_comm a0 a1 b0 b1 : cmulr a0 a1 b0 b1 = cmulr b0 b1 a0 a1 /\ cmuli a0 a1 b0 b1 = cmuli b0 b1 a0 a1.
Proof. cbv beta zeta delta [cmul_re cmul_im]. split; ring. Qed.

Lemma cmul_assoc a0 a1 b0 b1 c0 c1 :
  cmulr (cmulr a0 a1 b0 b1) (cmuli a0 a1 b0 b1) c0 c1 = cmulr a0 a1 (cmulr b0 b1 c0 c1) (cmuli b0 b1 c0 c1) /\
  cmuli (cmulr a0 a1 b0 b1) (cmuli a0 a1 b0 b1) c0 c1 = cmuli a0 a1 (cmulr b0 b1 c0 c1) (cmuli b0 b1 c0 c1).
Proof. cbv beta zeta delta [cmul_re cmul_im]. split; ring. Qed.

Lemma cmul_distr a0 a1 b0 b1 c0 c1 :
  cmulr a0 a1 (b0 + c0) (b1 + c1) = cmulr a0 a1 b0 b1 + cmulr a0 a1 c0 c1 /\
  cmuli a0 a1 (b0 + c0) (b1 + c1) = cmuli a0 a1 b0 b1 + cmuli a0 a1 c0 c1.
Proof. cbv beta zeta delta [cmul_re cmul_im]. split; ring. Qed.

(* |z|^2 = z * conj z, multiplicative *)
Lemma modsq_conj a0 a1 : cmulr a0 a1 (conjr a0 a1) (conji a0 a1) = msq a0 a1 /\ cmuli a0 a1 (conjr a0 a1) (conji a0 a1) = 0.
Proof. cbv beta zeta delta [cmul_re cmul_im conj_re conj_im modsq]. split; ring. Qed.

Lemma modsq_mul a0 a1 b0 b1 : msq (cmulr a0 a1 b0 b1) (cmuli a0 a1 b0 b1) = msq a0 a1 * msq b0 b1.
Proof. cbv beta zeta delta [cmul_re cmul_im modsq]. ring. Qed.

(* division: zero where the divisor is zero, and otherwise the inverse of multiplication *)
Lemma cdiv_zero a0 a1 : cdivr a0 a1 0 0 = 0 /\ cdivi a0 a1 0 0 = 0.
Proof.
  cbv beta zeta delta [cdiv_re cdiv_im cdiv_den safe_div].
  assert (E : is0 (0 * 0 + 0 * 0) = true) by (apply is0_spec; ring). rewrite E. split; reflexivity.
Qed.

Lemma cdiv_mul_cancel a0 a1 b0 b1 : cden b0 b1 <> 0 ->
  cmulr (cdivr a0 a1 b0 b1) (cdivi a0 a1 b0 b1) b0 b1 = a0 /\ cmuli (cdivr a0 a1 b0 b1) (cdivi a0 a1 b0 b1) b0 b1 = a1.
Proof.
  intros Hd. cbv beta zeta delta [cdiv_re cdiv_im cdiv_den safe_div cmul_re cmul_im] in *.
  destruct (is0 (b0 * b0 + b1 * b1)) eqn:E; [apply is0_spec in E; contradiction|].
  split; field; exact Hd.
Qed.

Lemma cdiv_of_mul a0 a1 b0 b1 : cden b0 b1 <> 0 ->
  cdivr (cmulr a0 a1 b0 b1) (cmuli a0 a1 b0 b1) b0 b1 = a0 /\ cdivi (cmulr a0 a1 b0 b1) (cmuli a0 a1 b0 b1) b0 b1 = a1.
Proof.
  intros Hd. cbv beta zeta delta [cdiv_re cdiv_im cdiv_den safe_div cmul_re cmul_im] in *.
  destruct (is0 (b0 * b0 + b1 * b1)) eqn:E; [apply is0_spec in E; contradiction|].
  split; field; exact Hd.
Qed.

(* complex matrix product from real ones: the real/imaginary formula, for any bilinear M *)
Lemma mm_spec (M : R -> R -> R) ar ai br bi :
  mm_re R rO rI radd rmul rsub rdiv ropp is0 M ar ai br bi = M ar br - M ai bi /\ mm_im R rO rI radd rmul rsub rdiv ropp is0 M ar ai br bi = M ar bi + M ai br.
Proof. cbv beta zeta delta [mm_re mm_im]. split; reflexivity. Qed.

(* ---- coil operators at one spatial position: S = sensitivity of each coil, y = coil data, x = image value ---- *)
Definition C := (R * R)%type.
Definition cadd (a b : C) : C := (fst a + fst b, snd a + snd b).
Definition czero : C := (0, 0).
Definition cmul (a b : C) : C := (cmulr (fst a) (snd a) (fst b) (snd b), cmuli (fst a) (snd a) (fst b) (snd b)).
Definition cconj (a : C) : C := (conjr (fst a) (snd a), conji (fst a) (snd a)).
Definition csum (l : list C) : C := fold_right cadd czero l.
Definition red_term (s y : C) : C :=
  (reduce_term_re R rO rI radd rmul rsub rdiv ropp is0 (fst s) (snd s) (fst y) (snd y), reduce_term_im R rO rI radd rmul rsub rdiv ropp is0 (fst s) (snd s) (fst y) (snd y)).
Definition reduce1 (S Y : list C) : C := csum (map (fun p => red_term (fst p) (snd p)) (combine S Y)).
Definition expand1 (S : list C) (x : C) : list C :=
  map (fun s => (expand_re R rO rI radd rmul rsub rdiv ropp is0 (fst s) (snd s) (fst x) (snd x), expand_im R rO rI radd rmul rsub rdiv ropp is0 (fst s) (snd s) (fst x) (snd x))) S.
Definition inner (U V : list C) : C := csum (map (fun p => cmul (cconj (fst p)) (snd p)) (combine U V)).

Lemma C_eq (a b : C) : fst a = fst b -> snd a = snd b -> a = b.
Proof. destruct a, b. cbn. intros -> ->. reflexivity. Qed.

Lemma red_term_spec s y : red_term s y = cmul (cconj s) y.
Proof. reflexivity. Qed.

Lemma expand1_spec S x : expand1 S x = map (fun s => cmul s x) S.
Proof. reflexivity. Qed.

(* adjointness <E x, y> = <x, R y> with <u, v> = sum conj(u) v, for arbitrary sensitivity maps *)
Lemma expand_reduce_adjoint S : forall Y x, length Y = length S ->
  inner (expand1 S x) Y = cmul (cconj x) (reduce1 S Y).
Proof.
  induction S as [|s S IH]; intros Y x HL.
  - destruct Y; [|discriminate]. cbn. apply C_eq; cbn; cbv beta zeta delta [cmul_re cmul_im conj_re conj_im]; ring.
  - destruct Y as [|y Y]; [discriminate|]. cbn [length] in HL.
    unfold inner, reduce1, expand1 in *. cbn [map combine csum fold_right fst snd].
    specialize (IH Y x ltac:(lia)). cbn [map combine] in IH. unfold csum in IH. rewrite IH.
    apply C_eq; cbn [fst snd cadd cmul cconj red_term];
      cbv beta zeta delta [cmul_re cmul_im conj_re conj_im reduce_term_re reduce_term_im expand_re expand_im]; ring.
Qed.

(* reduction after expansion multiplies by sum_c |S_c|^2: the identity when the maps have unit root-sum-of-squares *)
Definition rss2 (S : list C) : R := fold_right (fun s acc => msq (fst s) (snd s) + acc) 0 S.

Lemma reduce_expand S x : reduce1 S (expand1 S x) = (rss2 S * fst x, rss2 S * snd x).
Proof.
  induction S as [|s S IH].
  - cbn. apply C_eq; cbn; ring.
  - unfold reduce1, expand1 in *. cbn [map combine csum fold_right fst snd].
    unfold csum in IH. rewrite IH.
    change (rss2 (s :: S)) with (msq (fst s) (snd s) + rss2 S). generalize (rss2 S) as r; intros r.
    apply C_eq; cbn [fst snd cadd red_term];
      cbv beta zeta delta [cmul_re cmul_im conj_re conj_im reduce_term_re reduce_term_im expand_re expand_im modsq]; ring.
Qed.

Corollary reduce_expand_id S x : rss2 S = 1 -> reduce1 S (expand1 S x) = x.
Proof. intros H. rewrite reduce_expand, H. apply C_eq; cbn; ring. Qed.

(* linearity of both operators *)
Lemma expand_linear S x x' (a : C) :
  expand1 S (cadd (cmul a x) x') = map (fun p => cadd (cmul a (fst p)) (snd p)) (combine (expand1 S x) (expand1 S x')).
Proof.
  destruct x as [x0 x1], x' as [y0 y1], a as [a0 a1].
  unfold expand1. induction S as [|[s0 s1] S IH]; [reflexivity|]. cbn [map combine]. rewrite IH. f_equal.
  apply C_eq; cbn [fst snd cadd cmul]; cbv beta zeta delta [cmul_re cmul_im expand_re expand_im]; ring.
Qed.

Lemma cadd_comm a b : cadd a b = cadd b a. Proof. apply C_eq; cbn; ring. Qed.
Lemma cadd_assoc a b c : cadd a (cadd b c) = cadd (cadd a b) c. Proof. apply C_eq; cbn; ring. Qed.

Lemma csum_perm l l' : Permutation l l' -> csum l = csum l'.
Proof.
  induction 1 as [|x l l' _ IH|x y l|l l' l'' _ IH1 _ IH2]; cbn [csum fold_right] in *.
  - reflexivity.
  - unfold csum in IH. rewrite IH. reflexivity.
  - rewrite !cadd_assoc. rewrite (cadd_comm y x). reflexivity.
  - unfold csum in *. rewrite IH1. exact IH2.
Qed.

(* reordering the coils of data and maps together does not change the reduction *)
Lemma reduce_perm_invariant (SY SY' : list (C * C)) : Permutation SY SY' ->
  reduce1 (map fst SY) (map snd SY) = reduce1 (map fst SY') (map snd SY').
Proof.
  intros HP. unfold reduce1.
  assert (E : forall l : list (C * C), combine (map fst l) (map snd l) = l).
  { induction l as [|[a b] l IHl]; [reflexivity|]. cbn. rewrite IHl. reflexivity. }
  rewrite !E. apply csum_perm. apply Permutation_map. exact HP.
Qed.
End Laws.
