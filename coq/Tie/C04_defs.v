(* C04 (no further executable definitions: the correspondence evaluates the regenerated functions directly). *)
From DV Require Import Base.Tactics Model.C04.
From G Require Import C04_gen.
