(* C03 tie — structural facts about the operator terms regenerated from the source (decided by computation). *)
From DV Require Import Base.Tactics Base.OpIR.
From G Require Import C03_gen.

Definition head_masked (m : var) (e : oexp) : bool := match e with OWhere0 m' _ => Nat.eqb m' m | _ => false end.

(* k-space is tensor variable 0, the sampling mask is mask variable 0 *)
Lemma apply_mask_is_selection : apply_mask_t = OWhere0 0 (OVar 0) /\ apply_mask_module_t = OWhere0 0 (OVar 0).
Proof. split; reflexivity. Qed.
Lemma apply_padding_is_selection : apply_padding_t = OWherePad 1 (OVar 0).
Proof. reflexivity. Qed.
Lemma fwd_op_head_masked : head_masked 0 fwd_op_t = true.
Proof. vm_compute. reflexivity. Qed.
Lemma kspace_only_masked :
  only_masked 0 0 bwd_op_t = true /\ only_masked 0 0 loglik_t = true /\ only_masked 0 0 a_star_t = true /\
  only_masked 0 0 a_star_a_t = true /\ only_masked 0 0 b_op_t = true.
Proof. vm_compute. repeat split; reflexivity. Qed.
(* the prediction term of the likelihood is masked as well: the forward transform only occurs under the mask *)
Fixpoint fwd_only_under_mask (m : var) (under : bool) (e : oexp) : bool :=
  match e with
  | OVar _ => true
  | OWhere0 m' e' => fwd_only_under_mask m (under || Nat.eqb m' m) e'
  | OFwd e' => under && fwd_only_under_mask m false e'
  | OWherePad _ e' | OBwd e' | OScale _ e' | OLayout _ e' => fwd_only_under_mask m false e'
  | OExpand a b | OReduce a b | OSub a b | OAdd a b => fwd_only_under_mask m false a && fwd_only_under_mask m false b
  end.
Lemma loglik_masks_prediction : fwd_only_under_mask 0 false loglik_t = true /\ fwd_only_under_mask 0 false a_star_a_t = true.
Proof. vm_compute. split; reflexivity. Qed.
