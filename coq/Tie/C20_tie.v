(* C20 tie — finite statements about the configurations and the schema shipped at the current working tree, decided by
   computation. *)
From Coq Require Import String List Bool.
Import ListNotations.
From DV Require Import Model.C20.
From G Require Import C20_gen.

Lemma all_shipped_ok : forallb (config_ok registry_now config_fields_now) shipped = true.
Proof. vm_compute. reflexivity. Qed.

(* no dataclass field of the typed schema defaults to a dataclass instance (rejected by Python >= 3.11) *)
Lemma defaults_constructible : forallb (fun f => negb (Nat.eqb (snd f) 3)) field_defaults_now = true.
Proof. vm_compute. reflexivity. Qed.

(* every leaf key of the transform schema is a parameter of build_mri_transforms *)
Lemma transform_keys_accepted : forallb (fun k => mem k transform_builder_params) transform_schema_leaves = true.
Proof. vm_compute. reflexivity. Qed.
