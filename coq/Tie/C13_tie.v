(* C13 tie — the definitions regenerated from direct/utils/__init__.py (G.C13_gen) coincide with the model's
   chunk arithmetic for every length, chunk count and index.  Automation only (case split + nia), so a
   harmless rewrite of the Python expression is accepted and a change of meaning is not. *)
From DV Require Import Base.Tactics Model.C13.
From G Require Import C13_gen.

Lemma gen_chunks_count len k : chunks_count (Z.of_nat len) (Z.of_nat k) = Z.of_nat k.
Proof. cbv beta zeta delta [chunks_count]. reflexivity || lia. Qed.

Lemma gen_chunk_lo len k idx : (0 < k)%nat -> (idx < k)%nat ->
  chunk_lo (Z.of_nat len) (Z.of_nat k) (Z.of_nat idx) = Z.of_nat (chunk_si len k idx).
Proof.
  intros Hk Hi. cbv beta zeta delta [chunk_lo chunk_si].
  assert (Hd := Nat.div_mod len k ltac:(lia)). assert (Hm := Nat.mod_upper_bound len k ltac:(lia)).
  rewrite <- !Nat2Z.inj_div, <- !Nat2Z.inj_mod by lia.
  repeat case_if; nia.
Qed.

Lemma gen_chunk_hi len k idx : (0 < k)%nat -> (idx < k)%nat ->
  chunk_hi (Z.of_nat len) (Z.of_nat k) (Z.of_nat idx) = Z.of_nat (chunk_si len k idx + chunk_sz len k idx).
Proof.
  intros Hk Hi. cbv beta zeta delta [chunk_hi chunk_si chunk_sz].
  assert (Hd := Nat.div_mod len k ltac:(lia)). assert (Hm := Nat.mod_upper_bound len k ltac:(lia)).
  rewrite <- !Nat2Z.inj_div, <- !Nat2Z.inj_mod by lia.
  repeat case_if; nia.
Qed.
