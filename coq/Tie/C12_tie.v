(* C12 tie — lemmas about the regenerated arithmetic of H5SliceData / ConcatDataset composed with the list model. *)
From DV Require Import Base.Tactics Base.ListAux Model.C12 Proofs.C12.
From G Require Import C12_gen C12_defs.

Lemma parse_gen_eq files flt : forall cur k, parse_gen_from (Z.of_nat cur) k files flt = parse_from cur k files flt.
Proof.
  induction files as [|n t IH]; intros cur k; [reflexivity|].
  cbn [parse_gen_from parse_from].
  replace (p_next (Z.of_nat cur) (Z.of_nat (length (admissible flt n)))) with (Z.of_nat (cur + length (admissible flt n)))
    by (cbv beta zeta delta [p_next]; lia).
  rewrite IH. destruct (parse_from (cur + length (admissible flt n)) (S k) t flt) as [d r].
  f_equal. f_equal. f_equal; cbv beta zeta delta [p_lo p_hi]; lia.
Qed.

Lemma pyslice_ids_ok lo hi n : (0 <= lo <= hi)%Z -> (hi <= Z.of_nat n)%Z ->
  pyslice_ids lo hi n = seq (Z.to_nat lo) (Z.to_nat (hi - lo)).
Proof. intros H1 H2. unfold pyslice_ids, pyidx. repeat case_if; f_equal; lia. Qed.

Lemma window_gen_spec c s n filtered : (s < n)%nat -> (0 < c)%nat -> window_gen c s n filtered = window_spec c s n.
Proof.
  intros Hs Hc. rewrite window_decomp by exact Hs. unfold window_gen.
  assert (HN : w_num_slices (Z.of_nat n) (Z.of_nat filtered) = Z.of_nat n) by (cbv beta zeta delta [w_num_slices]; reflexivity).
  rewrite HN.
  assert (Hlo : w_lo (Z.of_nat s) (Z.of_nat c) (Z.of_nat n) 0 = Z.of_nat (s - c)) by (cbv beta zeta delta [w_lo]; lia).
  assert (Hhi : w_hi (Z.of_nat s) (Z.of_nat c) (Z.of_nat n) 0 = Z.of_nat (Nat.min (s + c + 1) n)) by (cbv beta zeta delta [w_hi]; lia).
  rewrite Hlo, Hhi. rewrite pyslice_ids_ok by lia.
  replace (Z.to_nat (Z.of_nat (s - c))) with (s - c)%nat by lia.
  replace (Z.to_nat (Z.of_nat (Nat.min (s + c + 1) n) - Z.of_nat (s - c))) with (Nat.min (s + c + 1) n - (s - c))%nat by lia.
  rewrite map_length, seq_length.
  set (mid := (Nat.min (s + c + 1) n - (s - c))%nat).
  set (X := map Some (seq (s - c) mid)).
  (* what the regenerated tests and lengths have to satisfy, whatever their spelling *)
  set (S := Z.of_nat s). set (C := Z.of_nat c). set (N := Z.of_nat n). set (M := Z.of_nat mid).
  assert (Hmid : (mid = Nat.min (s + c + 1) n - (s - c))%nat) by reflexivity.
  assert (Gf : w_guard S C N M = false -> (c - s = 0 /\ s + c + 1 - n = 0)%nat)
    by (subst S C N M; cbv beta zeta delta [w_guard]; intros; lia).
  assert (Pt : w_guard S C N M = true -> w_pre_cond S C N M = true -> Z.to_nat (w_pre_len S C N M) = (c - s)%nat)
    by (subst S C N M; cbv beta zeta delta [w_guard w_pre_cond w_pre_len]; intros; lia).
  assert (Pf : w_guard S C N M = true -> w_pre_cond S C N M = false -> (c - s = 0)%nat)
    by (subst S C N M; cbv beta zeta delta [w_guard w_pre_cond]; intros; lia).
  assert (Qt : w_guard S C N M = true -> w_post_cond S C N M = true -> Z.to_nat (w_post_len S C N M) = (s + c + 1 - n)%nat)
    by (subst S C N M; cbv beta zeta delta [w_guard w_post_cond w_post_len]; intros; lia).
  assert (Qf : w_guard S C N M = true -> w_post_cond S C N M = false -> (s + c + 1 - n = 0)%nat)
    by (subst S C N M; cbv beta zeta delta [w_guard w_post_cond]; intros; lia).
  destruct (w_guard S C N M) eqn:G;
  [ destruct (w_pre_cond S C N M) eqn:P; destruct (w_post_cond S C N M) eqn:Q | ].
  - rewrite (Pt eq_refl eq_refl), (Qt eq_refl eq_refl). rewrite <- app_assoc. reflexivity.
  - rewrite (Pt eq_refl eq_refl), (Qf eq_refl eq_refl). cbn [repeat]. rewrite app_nil_r. reflexivity.
  - rewrite (Qt eq_refl eq_refl), (Pf eq_refl eq_refl). reflexivity.
  - rewrite (Pf eq_refl eq_refl), (Qf eq_refl eq_refl). cbn [repeat app]. rewrite app_nil_r. reflexivity.
  - destruct (Gf eq_refl) as [E1 E2]. rewrite E1, E2. cbn [repeat app]. rewrite app_nil_r. reflexivity.
Qed.

Lemma cumsum_gen_eq sizes : forall acc, cumsum_gen (Z.of_nat acc) sizes = map Z.of_nat (cumsum_from acc sizes).
Proof.
  induction sizes as [|n t IH]; intros acc; [reflexivity|].
  cbn [cumsum_gen cumsum_from map].
  replace (cs_next (Z.of_nat acc) (Z.of_nat n)) with (Z.of_nat (acc + n)) by (cbv beta zeta delta [cs_next]; lia).
  rewrite IH. f_equal. cbv beta zeta delta [cs_entry]. lia.
Qed.

Lemma bisect_right_z_eq l x : bisect_right_z (map Z.of_nat l) (Z.of_nat x) = bisect_right l x.
Proof.
  induction l as [|y t IH]; [reflexivity|]. cbn [map bisect_right_z bisect_right].
  rewrite IH. destruct (y <=? x)%nat eqn:E; destruct (Z.of_nat y <=? Z.of_nat x)%Z eqn:E'; try reflexivity; lia.
Qed.

Lemma last_cumsum_from t : forall acc n d, last (cumsum_from acc (n :: t)) d = (acc + n + fold_right Nat.add 0 t)%nat.
Proof.
  induction t as [|m t' IH]; intros acc n d.
  - cbn. lia.
  - change (cumsum_from acc (n :: m :: t')) with ((acc + n)%nat :: cumsum_from (acc + n) (m :: t')).
    change (last ((acc + n)%nat :: cumsum_from (acc + n) (m :: t')) d) with (last (cumsum_from (acc + n) (m :: t')) d).
    rewrite IH. cbn [fold_right]. lia.
Qed.

Lemma last_map_of_nat l : l <> [] -> last (map Z.of_nat l) 0%Z = Z.of_nat (last l 0%nat).
Proof.
  induction l as [|x t IH]; intros H; [congruence|].
  destruct t as [|y t']; [reflexivity|].
  change (last (map Z.of_nat (x :: y :: t')) 0%Z) with (last (map Z.of_nat (y :: t')) 0%Z).
  change (last (x :: y :: t') 0%nat) with (last (y :: t') 0%nat). apply IH. discriminate.
Qed.

Lemma nth_map_of_nat l i : nth i (map Z.of_nat l) 0%Z = Z.of_nat (nth i l 0%nat).
Proof. change 0%Z with (Z.of_nat 0). apply map_nth. Qed.

(* in-range index (also negative): the member found contains the index, and the sample index is the offset in it *)
Theorem concat_getitem_spec sizes idx : sizes <> [] ->
  let total := fold_right Nat.add 0%nat sizes in
  (- Z.of_nat total <= idx < Z.of_nat total)%Z ->
  let x := Z.to_nat (if (idx <? 0)%Z then Z.of_nat total + idx else idx)%Z in
  let cum := cumsum_from 0 sizes in
  let j := bisect_right cum x in
  concat_getitem_gen sizes idx = Some (j, (x - prev_cum 0 cum j)%nat) /\
  (j < length sizes)%nat /\ (prev_cum 0 cum j <= x < nth j cum 0)%nat /\ (x - prev_cum 0 cum j < nth j sizes 0)%nat.
Proof.
  intros Hne total Hidx x cum j.
  assert (Hx : (0 <= x < 0 + total)%nat) by (unfold x; destruct (idx <? 0)%Z eqn:E; lia).
  destruct (concat_locate 0 sizes x Hx) as (Hj & Hb & Hs). fold cum in Hj, Hb, Hs. fold j in Hj, Hb, Hs.
  split; [|repeat split; lia].
  unfold concat_getitem_gen.
  change (cumsum_gen 0 sizes) with (cumsum_gen (Z.of_nat 0) sizes). rewrite cumsum_gen_eq. fold cum.
  assert (Hlast : last (map Z.of_nat cum) 0%Z = Z.of_nat total).
  { rewrite last_map_of_nat. - f_equal. unfold cum. destruct sizes as [|n t]; [congruence|]. rewrite last_cumsum_from. reflexivity.
    - unfold cum. destruct sizes; [congruence|discriminate]. }
  rewrite Hlast.
  assert (Hraise : ((idx <? 0)%Z && cd_neg_raises idx (Z.of_nat total)) = false).
  { destruct (idx <? 0)%Z eqn:E; [|reflexivity]. cbn [andb]. cbv beta zeta delta [cd_neg_raises]. lia. }
  rewrite Hraise.
  assert (Hnorm : (if (idx <? 0)%Z then cd_norm idx (Z.of_nat total) else idx) = Z.of_nat x).
  { unfold x. destruct (idx <? 0)%Z eqn:E; [cbv beta zeta delta [cd_norm]|]; lia. }
  rewrite Hnorm. rewrite bisect_right_z_eq. fold j.
  rewrite nth_map_of_nat.
  assert (Hsmp : cd_sample (Z.of_nat x) (Z.of_nat j) (Z.of_nat (nth (j - 1) cum 0%nat)) = Z.of_nat (x - prev_cum 0 cum j)).
  { cbv beta zeta delta [cd_sample]. unfold prev_cum in *. destruct j as [|i]; [cbn; lia|].
    replace (S i - 1)%nat with i by lia. case_if; lia. }
  rewrite Hsmp.
  replace ((j <? length sizes)%nat) with true by (symmetry; apply Nat.ltb_lt; exact Hj).
  replace (0 <=? Z.of_nat (x - prev_cum 0 cum j))%Z with true by lia.
  replace (Z.of_nat (x - prev_cum 0 cum j) <? Z.of_nat (nth j sizes 0%nat))%Z with true by lia.
  cbn [andb]. rewrite Nat2Z.id. reflexivity.
Qed.

