(* C18 tie — the regenerated views / reductions are the row-wise ones the per-sample theorems are about. *)
From DV Require Import Base.Tactics Base.ListAux Model.C18 Proofs.C18.
From G Require Import C18_gen C18_defs.

Lemma nu2_norm_tie : gen_nu2_norm = rows_spec [VBatch; VChannels; VHeight; VWidth]. Proof. reflexivity. Qed.
Lemma nu2_unnorm_tie : gen_nu2_unnorm = rows_spec [VBatch; VChannels; VHeight; VWidth]. Proof. reflexivity. Qed.
Lemma nu3_norm_tie : gen_nu3_norm = rows_spec [VBatch; VChannels; VDepth; VHeight; VWidth]. Proof. reflexivity. Qed.
Lemma nu3_unnorm_tie : gen_nu3_unnorm = rows_spec [VBatch; VChannels; VDepth; VHeight; VWidth]. Proof. reflexivity. Qed.
Lemma gru_norm_tie : gen_gru_norm = rows_spec [VBatch; VChannels; VHeight; VWidth]. Proof. reflexivity. Qed.
Lemma gru_unnorm_tie : gen_gru_unnorm = rows_spec [VBatch; VChannels; VHeight; VWidth]. Proof. reflexivity. Qed.

(* StandardizationLayer works along the coil and channel axes of a (batch, coil, height, width, complex) tensor *)
Lemma std_dims_tie : (gen_std_coil_dim = 1 /\ gen_std_channel_dim = -1)%Z. Proof. split; reflexivity. Qed.

(* no forward method stores into its module: nothing is carried from one call to the next *)
Lemma forward_stateless_tie : gen_forward_self_stores = []. Proof. reflexivity. Qed.

(* the row sums of a batch are those of its samples *)
Lemma row_sums_per_sample (g m : nat) (samples : list (list Z)) : (0 < m)%nat -> Forall (fun s => List.length s = (g * m)%nat) samples ->
  row_sums m samples = concat (map (fun s => row_sums m [s]) samples).
Proof.
  intros Hm H. unfold row_sums. rewrite (stats_are_per_sample (fun r => fold_right Z.add 0%Z r) g) by assumption.
  f_equal. apply map_ext. intros s. cbn [concat]. rewrite app_nil_r. reflexivity.
Qed.
