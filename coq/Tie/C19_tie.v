(* C19 tie — the regenerated likelihood term is the normal residual A*(A x - M y); the regenerated conjugate-gradient
   updates keep the residual invariant.  All operators abstract; hypotheses explicit. *)
From DV Require Import Base.Tactics Base.OpIR.
From Coq Require Import QArith.
From G Require Import C19_gen.

(* ---- 1-dimensional exact instance used by the correspondence run (one coil, one pixel: F = Finv = id) ---- *)
Definition eval1 (x y s : Q) (m : bool) (lam : Q) (e : oexp) : Q :=
  eval Q bool Q (fun mk t => if mk then t else 0%Q) (fun mk t => if mk then 0%Q else t)
       (fun t => t) (fun t => t) (fun img smap => Qmult smap img) (fun k smap => Qmult smap k) Qminus Qplus Qmult (fun _ t => t)
       (fun v => match v with 0 => y | 1 => x | _ => s end) (fun _ => m) (fun v => match v with 0 => 1%Q | _ => lam end) e.
Definition qcanon1 (q : Q) : Z * Z := let r := Qred q in (Qnum r, Z.pos (Qden r)).

(* ---- the likelihood block ---- *)
Section Loglik.
Variables (T M S : Type).
Variables (where0 wherepad : M -> T -> T) (F Finv : T -> T) (expand reduce sub add : T -> T -> T) (scale : S -> T -> T) (layout : nat -> T -> T).
Variables (rt : var -> T) (rm : var -> M) (rs : var -> S).
Hypothesis layout_id : forall tag t, layout tag t = t.          (* permute: same tensor, other memory layout *)
Hypothesis scale_one : forall t, scale (rs 0) t = t.            (* loglikelihood_scaling = 1 *)
Hypothesis mask_sub : forall m a b, where0 m (sub a b) = sub (where0 m a) (where0 m b).
Hypothesis mask_idem : forall m a, where0 m (where0 m a) = where0 m a.

Definition Aop (x : T) : T := where0 (rm 0) (F (expand x (rt 2))).                 (* A = M F E *)
Definition Astar (k : T) : T := reduce (Finv (where0 (rm 0) k)) (rt 2).           (* A* = R F^-1 M *)

Lemma loglik_is_normal_residual :
  eval T M S where0 wherepad F Finv expand reduce sub add scale layout rt rm rs loglik_t
  = Astar (sub (Aop (rt 1)) (where0 (rm 0) (rt 0))).
Proof.
  unfold loglik_t, Astar, Aop. cbn [eval]. rewrite !layout_id, !scale_one.
  rewrite mask_sub, !mask_idem. reflexivity.
Qed.

Lemma a_star_is_adjoint_term :
  eval T M S where0 wherepad F Finv expand reduce sub add scale layout rt rm rs a_star_t = Astar (rt 0).
Proof. reflexivity. Qed.

Lemma b_op_is_normal_operator :
  eval T M S where0 wherepad F Finv expand reduce sub add scale layout rt rm rs b_op_t
  = add (reduce (Finv (Aop (rt 1))) (rt 2)) (scale (rs 1) (rt 1)).
Proof. reflexivity. Qed.
End Loglik.

(* ---- the block is the gradient of the data-fidelity term: exact second-order expansion ---- *)
Section Gradient.
Variables (X Y R : Type).
Variables (rO rI : R) (radd rmul rsub : R -> R -> R) (ropp : R -> R).
Hypothesis Rring : ring_theory rO rI radd rmul rsub ropp (@eq R).
Add Ring Rr : Rring.
Variables (xadd : X -> X -> X) (yadd ysub : Y -> Y -> Y) (ipX : X -> X -> R) (ipY : Y -> Y -> R).
Variables (A : X -> Y) (As : Y -> X) (b : Y).
Hypothesis A_linear : forall x h, A (xadd x h) = yadd (A x) (A h).
Hypothesis sub_add : forall a c d, ysub (yadd a c) d = yadd (ysub a d) c.
Hypothesis ipY_add_l : forall a c d, ipY (yadd a c) d = radd (ipY a d) (ipY c d).
Hypothesis ipY_sym : forall a c, ipY a c = ipY c a.
Hypothesis adjoint : forall x k, ipY (A x) k = ipX x (As k).
Hypothesis ipX_sym : forall a c, ipX a c = ipX c a.

Definition Phi (x : X) : R := ipY (ysub (A x) b) (ysub (A x) b).       (* twice the data-fidelity term *)
Definition grad (x : X) : X := As (ysub (A x) b).                     (* the block *)

Theorem gradient_identity x h :
  Phi (xadd x h) = radd (Phi x) (radd (rmul (radd rI rI) (ipX (grad x) h)) (ipY (A h) (A h))).
Proof.
  unfold Phi, grad. rewrite A_linear, sub_add.
  rewrite ipY_add_l. rewrite (ipY_sym (ysub (A x) b) (yadd _ _)), (ipY_sym (A h) (yadd _ _)).
  rewrite !ipY_add_l. rewrite (ipY_sym (A h) (ysub (A x) b)).
  rewrite (ipX_sym (As _) h). rewrite <- adjoint. rewrite (ipY_sym (A h) (ysub (A x) b)). ring.
Qed.

Lemma normal_operator_self_adjoint x x' : ipX (As (A x)) x' = ipX x (As (A x')).
Proof. rewrite (ipX_sym (As (A x)) x'). rewrite <- !adjoint. apply ipY_sym. Qed.
End Gradient.

(* ---- conjugate gradients: the regenerated updates keep r = b - B x, for every step size and every beta rule ---- *)
Section CG.
Variables (V K : Type) (vadd vsub : V -> V -> V) (smul : K -> V -> V) (dot : V -> V -> K) (sdiv : K -> K -> K) (Bl Astar : V -> V) (lam : K).
Hypothesis B_linear : forall x a p, Bl (vadd x (smul a p)) = vadd (Bl x) (smul a (Bl p)).
Hypothesis sub_sub : forall b u w, vsub (vsub b u) w = vsub b (vadd u w).

Notation cgx := (cg_x V K vadd vsub smul dot sdiv Bl Astar lam).
Notation cgr := (cg_r V K vadd vsub smul dot sdiv Bl Astar lam).
Notation cgBp := (cg_Bp V K vadd vsub smul dot sdiv Bl Astar lam).

Lemma cg_step_invariant b x r p a : r = vsub b (Bl x) -> cgr r (cgBp p) a = vsub b (Bl (cgx x p a)).
Proof. intros ->. cbv beta zeta delta [cg_r cg_x cg_Bp]. rewrite B_linear, sub_sub. reflexivity. Qed.

Lemma cg_initial_invariant b x0 : cg_r0 V K vadd vsub smul dot sdiv Bl Astar lam b x0 = vsub b (Bl x0).
Proof. reflexivity. Qed.

(* n iterations with arbitrary step sizes and search directions *)
Fixpoint cg_run (n : nat) (step : nat -> V -> V -> V -> K) (dir : nat -> V -> V -> V) (x r p : V) : V * V :=
  match n with
  | 0 => (x, r)
  | S m => let a := step m x r p in
           let x' := cgx x p a in let r' := cgr r (cgBp p) a in
           cg_run m step dir x' r' (dir m r' p)
  end.

Theorem cg_residual_invariant b n step dir : forall x r p, r = vsub b (Bl x) ->
  snd (cg_run n step dir x r p) = vsub b (Bl (fst (cg_run n step dir x r p))).
Proof.
  induction n as [|m IH]; intros x r p H; [exact H|].
  cbn [cg_run]. apply IH. apply cg_step_invariant. exact H.
Qed.

(* the right-hand side is A* y + lambda z *)
Lemma cg_rhs y z : cg_b V K vadd vsub smul dot sdiv Bl Astar lam y z = vadd (Astar y) (smul lam z).
Proof. reflexivity. Qed.
End CG.

(* the tolerance exit comes after x, r and r.r of the same iteration have been updated: what is returned is an iterate
   together with its own residual *)
Lemma cg_exit_after_tie : cg_exit_after = [0; 1; 2]%nat.
Proof. reflexivity. Qed.
