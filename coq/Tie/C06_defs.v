(* C06 executable definitions over the regenerated centre arithmetic. *)
From DV Require Import Base.Tactics.
From G Require Import C06_gen.
Open Scope Z_scope.

Definition zrange (n : Z) : list Z := map Z.of_nat (seq 0 (Z.to_nat n)).
(* mask = zeros(N); mask[lo:hi] = True  (Python slice semantics for possibly out-of-range bounds) *)
Definition pyclip (n i : Z) : Z := if i <? 0 then Z.max (i + n) 0 else Z.min i n.
Definition center_cols (N L : Z) : list Z :=
  let lo := pyclip N (cm_lo N L) in let hi := pyclip N (cm_hi N L) in filter (fun j => (lo <=? j) && (j <? hi)) (zrange N).
Definition disk_cells (n m r : Z) : list (Z * Z) :=
  flat_map (fun x => map (fun y => (x, y)) (filter (fun y => disk_in n m r x y) (zrange m))) (zrange n).
