(* C04 tie — the regenerated shape function is the documented geometry; the regenerated bisection skeleton carries the
   stall guard; the rejection kernels ask for c + 1 new cells. *)
From DV Require Import Base.Tactics Base.Rot Model.C04 Proofs.C04.
From G Require Import C04_gen.
Local Open Scope Z_scope.

Lemma call_guard_spec dyn rank : call_rejects dyn rank = false <-> (3 <= rank /\ (dyn = true -> 4 <= rank)).
Proof. cbv beta zeta delta [call_rejects]. destruct dyn; cbn [andb]; split; intros H; try lia; destruct H as [H1 H2]; try specialize (H2 eq_refl); lia. Qed.

Lemma reshape_is_spec dyn shape : call_rejects dyn (Z.of_nat (length shape)) = false ->
  reshape_shape dyn shape = spec_shape dyn shape.
Proof.
  intros Hc. apply call_guard_spec in Hc. destruct Hc as [H3 H4].
  unfold reshape_shape, spec_shape. f_equal.
  assert (Hl0 : length (map (fun _ : Z => 1) shape) = (length shape)) by apply map_length.
  assert (Hl2 : length (set_neg 2 (get_neg 2 shape) (map (fun _ => 1) shape)) = (length shape)) by (rewrite set_neg_length by lia; exact Hl0).
  assert (Hl3 : length (set_neg 3 (get_neg 3 shape) (set_neg 2 (get_neg 2 shape) (map (fun _ => 1) shape))) = (length shape)) by (rewrite set_neg_length by lia; exact Hl2).
  destruct dyn.
  - specialize (H4 eq_refl).
    apply list_ext; [rewrite set_neg_length by lia; rewrite Hl3, map_length, seq_length; reflexivity|].
    intros i d Hi. rewrite set_neg_length in Hi by lia. rewrite Hl3 in Hi.
    rewrite (nth_indep _ d 0) by (rewrite set_neg_length by lia; lia).
    rewrite (nth_indep _ d 0) by (rewrite map_length, seq_length; exact Hi).
    rewrite nth_spec_body by exact Hi.
    rewrite nth_set_neg by lia. rewrite Hl3.
    rewrite nth_set_neg by lia. rewrite Hl2.
    rewrite nth_set_neg by lia. rewrite Hl0.
    rewrite nth_map_const by exact Hi. unfold get_neg. cbn [andb].
    destruct (Nat.eqb i ((length shape) - 4)) eqn:E4; destruct (Nat.eqb i ((length shape) - 3)) eqn:E3; destruct (Nat.eqb i ((length shape) - 2)) eqn:E2;
      try apply Nat.eqb_eq in E4; try apply Nat.eqb_eq in E3; try apply Nat.eqb_eq in E2; subst; cbn [orb]; try reflexivity; try lia.
  - apply list_ext; [rewrite Hl3, map_length, seq_length; reflexivity|].
    intros i d Hi. rewrite Hl3 in Hi.
    rewrite (nth_indep _ d 0) by lia.
    rewrite (nth_indep _ d 0) by (rewrite map_length, seq_length; exact Hi).
    rewrite nth_spec_body by exact Hi.
    rewrite nth_set_neg by lia. rewrite Hl2.
    rewrite nth_set_neg by lia. rewrite Hl0.
    rewrite nth_map_const by exact Hi. unfold get_neg. cbn [andb orb].
    rewrite orb_false_r.
    destruct (Nat.eqb i ((length shape) - 3)) eqn:E3; destruct (Nat.eqb i ((length shape) - 2)) eqn:E2;
      try apply Nat.eqb_eq in E3; try apply Nat.eqb_eq in E2; subst; cbn [orb]; try reflexivity; try lia.
Qed.

Lemma vdp_bisect_is_guarded : vdp_bisect = safe_bisect /\ vdp_raises_when_out_of_tolerance = true.
Proof. split; reflexivity. Qed.

Lemma kernels_need c : g1d_need c = c + 1 /\ g2d_need c = c + 1 /\ gfill_need c = c + 1.
Proof. cbv beta zeta delta [g1d_need g2d_need gfill_need]. repeat split; lia. Qed.
