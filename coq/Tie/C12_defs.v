(* C12 executable definitions over the regenerated arithmetic (used by proofs and by the correspondence run). *)
From DV Require Import Base.Tactics Base.ListAux Model.C12.
From G Require Import C12_gen.

(* ---- parse_filenames_data with the regenerated range bookkeeping ---- *)
Fixpoint parse_gen_from (cur : Z) (fileno : nat) (files : list nat) flt : list (nat * nat) * list (nat * nat) :=
  match files with
  | [] => ([], [])
  | n :: t =>
      let adm := admissible flt n in
      let k := Z.of_nat (length adm) in
      let '(d, r) := parse_gen_from (p_next cur k) (S fileno) t flt in
      (map (fun s => (fileno, s)) adm ++ d, (Z.to_nat (p_lo cur k), Z.to_nat (p_hi cur k)) :: r)
  end.

(* ---- context window with the regenerated arithmetic ---- *)
Definition pyslice_ids (lo hi : Z) (n : nat) : list nat :=
  let a := pyidx (Z.of_nat n) lo in let b := pyidx (Z.of_nat n) hi in seq (Z.to_nat a) (Z.to_nat (b - a)).

Definition window_gen (c s file_n filtered_n : nat) : list (option nat) :=
  let n := w_num_slices (Z.of_nat file_n) (Z.of_nat filtered_n) in
  let sz := Z.of_nat s in let cz := Z.of_nat c in
  let cur := map Some (pyslice_ids (w_lo sz cz n 0) (w_hi sz cz n 0) file_n) in
  let len := Z.of_nat (length cur) in
  if w_guard sz cz n len then
    let cur1 := if w_pre_cond sz cz n len then repeat None (Z.to_nat (w_pre_len sz cz n len)) ++ cur else cur in
    if w_post_cond sz cz n len then cur1 ++ repeat None (Z.to_nat (w_post_len sz cz n len)) else cur1
  else cur.

(* what the correspondence run evaluates: data, ranges and, per item, (file, slice, window) *)
Definition run_case (files : list nat) flt (c : nat) :=
  let '(data, ranges) := parse_gen_from 0 0 files flt in
  (data, ranges,
   map (fun fs : nat * nat => let (f, s) := fs in
          (f, s, if (c =? 0)%nat then [Some s] else window_gen c s (nth f files 0%nat) (length (admissible flt (nth f files 0%nat))))) data).

(* ---- ConcatDataset.__getitem__ with the regenerated arithmetic ---- *)
Fixpoint cumsum_gen (total : Z) (sizes : list nat) : list Z :=
  match sizes with [] => [] | n :: t => cs_entry total (Z.of_nat n) :: cumsum_gen (cs_next total (Z.of_nat n)) t end.

Fixpoint bisect_right_z (l : list Z) (x : Z) : nat :=
  match l with [] => 0%nat | y :: t => if (y <=? x)%Z then S (bisect_right_z t x) else 0%nat end.

(* None = raises (ValueError for a too negative index, IndexError beyond the end) *)
Definition concat_getitem_gen (sizes : list nat) (idx : Z) : option (nat * nat) :=
  let cum := cumsum_gen 0 sizes in
  let len := last cum 0%Z in
  if (idx <? 0)%Z && cd_neg_raises idx len then None else
  let idx' := if (idx <? 0)%Z then cd_norm idx len else idx in
  let j := bisect_right_z cum idx' in
  let smp := cd_sample idx' (Z.of_nat j) (nth (j - 1) cum 0%Z) in
  if ((j <? length sizes)%nat && (0 <=? smp)%Z && (smp <? Z.of_nat (nth j sizes 0%nat))%Z)%bool then Some (j, Z.to_nat smp) else None.
