(* C05 tie — every generator's seeded routine, as regenerated from the source, is disciplined (decided by computation). *)
From DV Require Import Base.Tactics Base.RngIR.
From G Require Import C05_gen.

Lemma all_generators_disciplined : forallb disciplined all_generators = true.
Proof. vm_compute. reflexivity. Qed.
Lemma fourteen_generators : length all_generators = 14.
Proof. reflexivity. Qed.
