(* C18 executable definitions for the correspondence run. *)
From DV Require Import Base.Tactics Base.ListAux Model.C18.
From G Require Import C18_gen.
Local Open Scope Z_scope.

(* sums of the rows of the (b, groups, -1) view of the concatenated batch *)
Definition row_sums (m : nat) (samples : list (list Z)) : list Z :=
  row_stats (fun r => fold_right Z.add 0 r) m (concat samples).
