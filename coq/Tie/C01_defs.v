(* C01 executable definitions over the regenerated roll arithmetic. *)
From DV Require Import Base.Tactics Base.NList Base.Rot Model.C01.
From G Require Import C01_gen.
Open Scope Z_scope.

(* roll_one_dim along the outermost axis of a list, from the regenerated shift / no-op test / narrow segments *)
Definition roll1_gen {A} (s : Z) (l : list A) : list A :=
  let n := Z.of_nat (length l) in
  if r_noop s n then l
  else concat (map (fun seg : Z * Z => firstn (Z.to_nat (snd seg)) (skipn (Z.to_nat (fst seg)) l)) (r_segments s n)).
