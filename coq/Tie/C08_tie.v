(* C08 tie — the regenerated stage list ends, for every configuration, in a sample whose terms have the right degrees and
   the right shape; the regenerated padding threshold is relative; the mask only depends on file name and shapes. *)
From DV Require Import Base.Tactics Model.C08 Proofs.C08.
From Coq Require Import QArith Lqa String.
From G Require Import C08_gen C08_defs.

Definition scalings := [SKData Kspace; SKData MaskedKspace].
(* a masking function is given; SENSE-type targets need the sensitivity maps to be estimated *)
Definition claimed (x : cfg) : bool := c_mask x && implb (c_recon_sense x) (c_sens x).

(* 2 x 2^15 configurations, decided by computation *)
Lemma final_ok_all : forallb (fun x => implb (claimed x) (final_ok gen_supervised x)) (all_cfgs scalings) = true.
Proof. vm_compute. reflexivity. Qed.

Lemma final_ok_every x : In (c_scaling x) scalings -> claimed x = true -> final_ok gen_supervised x = true.
Proof.
  intros Hs Hm. pose proof final_ok_all as H. rewrite forallb_forall in H. specialize (H x (all_cfgs_complete scalings x Hs)).
  rewrite Hm in H. exact H.
Qed.

(* the self-supervised pipeline, same configuration space *)
Lemma final_ok_ssl_all : forallb (fun x => implb (claimed x) (final_ok_ssl gen_ssl x)) (all_cfgs scalings) = true.
Proof. vm_compute. reflexivity. Qed.

Lemma final_ok_ssl_every x : In (c_scaling x) scalings -> claimed x = true -> final_ok_ssl gen_ssl x = true.
Proof.
  intros Hs Hm. pose proof final_ok_ssl_all as H. rewrite forallb_forall in H. specialize (H x (all_cfgs_complete scalings x Hs)).
  rewrite Hm in H. exact H.
Qed.

Lemma pad_test_relative c a m eps : (0 < c)%Q -> (gen_pad_test (c * a) (c * m) eps <-> gen_pad_test a m eps).
Proof.
  intros Hc. unfold gen_pad_test. setoid_replace (c * m * eps)%Q with (c * (m * eps))%Q by ring.
  split; intros H; [apply (proj1 (Qmult_lt_l _ _ c Hc)); exact H | apply (proj2 (Qmult_lt_l _ _ c Hc)); exact H].
Qed.

(* an absolute threshold would not be: the test then depends on the scale *)
Example absolute_threshold_is_not_relative : exists c a eps : Q, (0 < c)%Q /\ (a < eps)%Q /\ ~ (c * a < eps)%Q.
Proof. exists 4%Q, (1 # 2)%Q, 1%Q. repeat split; try reflexivity. intros H. discriminate H. Qed.

Open Scope string_scope.
Lemma mask_reads_tie : gen_mask_reads = ["filename"; "kspace"; "padding"].
Proof. reflexivity. Qed.
