(* C01 tie — the regenerated roll_one_dim is the rotation of Base/Rot.v; the regenerated shift amounts are n/2 and
   (n+1)/2; the regenerated fft2 / ifft2 operation sequences are mutual inverses under the transform contract. *)
From DV Require Import Base.Tactics Base.NList Base.Rot Model.C01 Model.C01_ops.
From G Require Import C01_gen C01_defs.
Open Scope Z_scope.

(* what the regenerated arithmetic has to satisfy, whatever its shape: the input is returned as it is only when the
   reduced shift is 0, and otherwise the pieces are the last (s mod n) elements followed by the first n - s mod n *)
Lemma r_noop_sound s n : 0 < n -> r_noop s n = true -> s mod n = 0.
Proof. intros Hn. cbv beta zeta delta [r_noop]. case_ifs; intros H; try discriminate H; lia. Qed.

Lemma r_segments_spec s n : 0 < n -> r_noop s n = false ->
  r_segments s n = [(n - s mod n, s mod n); (0, n - s mod n)].
Proof.
  intros Hn. cbv beta zeta delta [r_noop r_segments].
  case_ifs; intros H; try discriminate H; repeat f_equal; lia.
Qed.

Lemma roll1_gen_is_rotr {A} (s : Z) (l : list A) : l <> [] ->
  roll1_gen s l = rotr (Z.to_nat (s mod Z.of_nat (length l))) l.
Proof.
  intros Hne. assert (Hn : (0 < length l)%nat) by (destruct l; [congruence|cbn; lia]).
  unfold roll1_gen, rotr.
  set (n := length l) in *.
  assert (Hm : 0 <= s mod Z.of_nat n < Z.of_nat n) by (apply Z.mod_pos_bound; lia).
  assert (E : (Z.to_nat (s mod Z.of_nat n) mod n)%nat = Z.to_nat (s mod Z.of_nat n)) by (apply Nat.mod_small; lia).
  rewrite E.
  destruct (r_noop s (Z.of_nat n)) eqn:E0.
  - apply r_noop_sound in E0; [|lia]. rewrite E0. reflexivity.
  - rewrite (r_segments_spec s (Z.of_nat n)) by (lia || exact E0).
    destruct (Z.to_nat (s mod Z.of_nat n) =? 0)%nat eqn:E1.
    + apply Nat.eqb_eq in E1. assert (E2 : s mod Z.of_nat n = 0) by lia. rewrite E2.
      cbn [map concat fst snd]. rewrite app_nil_r, Z.sub_0_r, Nat2Z.id. cbn [Z.to_nat firstn skipn app].
      apply firstn_all2. fold n. lia.
    + cbn [map concat fst snd]. rewrite app_nil_r.
      replace (Z.to_nat (Z.of_nat n - s mod Z.of_nat n)) with (n - Z.to_nat (s mod Z.of_nat n))%nat by lia.
      cbn [Z.to_nat skipn]. f_equal.
      apply firstn_all2. rewrite skipn_length. fold n. lia.
Qed.

Lemma shift_amounts n : 0 <= n -> fftshift_amount n = n / 2 /\ ifftshift_amount n = (n + 1) / 2.
Proof. intros. cbv beta zeta delta [fftshift_amount ifftshift_amount]. split; reflexivity || lia. Qed.

(* with dim=None every axis is shifted: the regenerated default axis list is 0, 1, .., rank-1 *)
Lemma default_axes i : 0 <= i -> fftshift_default_axis i = i /\ ifftshift_default_axis i = i.
Proof. intros. cbv beta zeta delta [fftshift_default_axis ifftshift_default_axis]. split; case_ifs; lia. Qed.

(* the spectrum-shift helpers on a list: mutual inverses for every length *)
Lemma shifts_inverse_1d {A} (l : list A) :
  roll1_gen (ifftshift_amount (Z.of_nat (length l))) (roll1_gen (fftshift_amount (Z.of_nat (length l))) l) = l /\
  roll1_gen (fftshift_amount (Z.of_nat (length l))) (roll1_gen (ifftshift_amount (Z.of_nat (length l))) l) = l.
Proof.
  destruct l as [|x xs]; [split; reflexivity|].
  set (l := x :: xs). assert (Hne : l <> []) by discriminate.
  destruct (shift_amounts (Z.of_nat (length l)) ltac:(lia)) as [E1 E2]. rewrite E1, E2.
  assert (Hn : (0 < length l)%nat) by (cbn; lia).
  assert (R1 : roll1_gen (Z.of_nat (length l) / 2) l = rotr (length l / 2) l).
  { rewrite roll1_gen_is_rotr by exact Hne. rewrite Z.mod_small by (split; [apply Z.div_pos; lia| apply Z.div_lt_upper_bound; lia]).
    f_equal. rewrite <- (Nat2Z.id (length l / 2)). f_equal. rewrite Nat2Z.inj_div. reflexivity. }
  assert (R2 : forall m : list A, length m = length l -> roll1_gen ((Z.of_nat (length l) + 1) / 2) m = rotr ((length l + 1) / 2) m).
  { intros m Hm. assert (m <> []) by (destruct m; [cbn in Hm; lia|discriminate]).
    rewrite roll1_gen_is_rotr by assumption. rewrite Hm.
    assert (Hq : (Z.of_nat (length l) + 1) / 2 = Z.of_nat ((length l + 1) / 2)) by (rewrite Nat2Z.inj_div, Nat2Z.inj_add; reflexivity).
    rewrite Hq. rewrite <- Nat2Z.inj_mod. rewrite Nat2Z.id.
    unfold rotr. rewrite Hm. rewrite Nat.mod_mod by lia. reflexivity. }
  assert (R1' : forall m : list A, length m = length l -> roll1_gen (Z.of_nat (length l) / 2) m = rotr (length l / 2) m).
  { intros m Hm. assert (m <> []) by (destruct m; [cbn in Hm; lia|discriminate]).
    rewrite roll1_gen_is_rotr by assumption. rewrite Hm.
    assert (Hq : Z.of_nat (length l) / 2 = Z.of_nat (length l / 2)) by (rewrite Nat2Z.inj_div; reflexivity).
    rewrite Hq. rewrite <- Nat2Z.inj_mod. rewrite Nat2Z.id.
    unfold rotr. rewrite Hm. rewrite Nat.mod_mod by lia. reflexivity. }
  split.
  - rewrite R1. rewrite R2 by apply rotr_length. apply ifftshift_fftshift_1d.
  - rewrite (R2 l eq_refl). rewrite R1' by apply rotr_length. apply fftshift_ifftshift_1d.
Qed.

(* ---- fft2 / ifft2 operation sequences ---- *)
Section Skeleton.
Variable T : Type.
Variables (vc vr ishift fshift : T -> T) (F Finv : bool -> T -> T).
Hypothesis vc_vr : forall t, vc (vr t) = t.
Hypothesis vr_vc : forall t, vr (vc t) = t.
Hypothesis ishift_fshift : forall t, ishift (fshift t) = t.
Hypothesis fshift_ishift : forall t, fshift (ishift t) = t.
Hypothesis Finv_F : forall b t, Finv b (F b t) = t.
Hypothesis F_Finv : forall b t, F b (Finv b t) = t.

Notation runs := (run T vc vr ishift fshift F Finv).

(* what the regenerated sequences are: shift, transform, shift back, wrapped by the layout views *)
Lemma fft2_shape c n ci t : runs c n ci (fft2_tab c ci) t =
  (if ci then vr else fun x => x) ((if c then fshift else fun x => x) (F n ((if c then ishift else fun x => x) ((if ci then vc else fun x => x) t)))).
Proof. unfold fft2_tab. destruct c, ci; reflexivity. Qed.

Lemma ifft2_shape c n ci t : runs c n ci (ifft2_tab c ci) t =
  (if ci then vr else fun x => x) ((if c then fshift else fun x => x) (Finv n ((if c then ishift else fun x => x) ((if ci then vc else fun x => x) t)))).
Proof. unfold ifft2_tab. destruct c, ci; reflexivity. Qed.

Lemma ifft2_fft2_id c n ci t : runs c n ci (ifft2_tab c ci) (runs c n ci (fft2_tab c ci) t) = t.
Proof. rewrite ifft2_shape, fft2_shape. destruct c, ci; rewrite ?vc_vr, ?ishift_fshift, ?Finv_F, ?fshift_ishift, ?vr_vc; reflexivity. Qed.

Lemma fft2_ifft2_id c n ci t : runs c n ci (fft2_tab c ci) (runs c n ci (ifft2_tab c ci) t) = t.
Proof. rewrite ifft2_shape, fft2_shape. destruct c, ci; rewrite ?vc_vr, ?ishift_fshift, ?F_Finv, ?fshift_ishift, ?vr_vc; reflexivity. Qed.
End Skeleton.
