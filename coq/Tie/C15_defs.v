(* C15 executable definitions over the regenerated save trace and resume arithmetic. *)
From DV Require Import Base.Tactics Model.C15.
From G Require Import C15_gen.
Open Scope Z_scope.

Definition not_close {D} (e : eff D) : bool := match e with Close _ => false | _ => true end.

(* fault injection: prior complete saves, then save (it, w) dying at every point; what load('latest') gives *)
Definition crash_run (prior : list (Z * Z)) (it w : Z) : list (loaded Z) :=
  let f0 : fs Z := fun _ => None in
  let f := fold_left (fun f p => apply_all Z (save_trace Z (fst p) (snd p)) f) prior f0 in
  map (load_latest Z) (crash_states Z (filter not_close (save_trace Z it w)) f).

Definition zseq (a n : Z) : list Z := map (fun i => a + Z.of_nat i) (seq 0 (Z.to_nat n)).

(* last regular checkpoint label of a run of [total] iterations (checkpoint_steps = 10^9 in the harness) *)
Definition last_reg (total : Z) : option Z :=
  fold_left (fun acc it => if reg_guard it total 1000000000 then Some (reg_label it) else acc) (zseq 0 total) None.

(* iterations entered by the interrupted run and by the resumed run (N iterations, interrupt at j) *)
Definition resume_trace (N j : Z) (kill : bool) : list Z * list Z :=
  let saved := if kill
               then (let l := nth 0 (kill_labels j) 0 in if kill_guard l then Some (kill_saved_label l) else None)
               else last_reg (j + 1) in
  let start := match saved with Some l => resume_start l | None => 0 end in
  (zseq 0 (j + 1), zseq start (N - start)).
