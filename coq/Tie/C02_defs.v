(* C02 executable instance over Q of the regenerated complex-pair expressions. *)
From DV Require Import Base.Tactics.
From Coq Require Import QArith.
From G Require Import C02_gen.

Definition qis0 (x : Q) : bool := Qeq_bool x 0.
Definition QP := (Q * Q)%type.
Definition qmul (a b : QP) : QP :=
  (cmul_re Q 0%Q 1%Q Qplus Qmult Qminus Qdiv Qopp qis0 (fst a) (snd a) (fst b) (snd b), cmul_im Q 0%Q 1%Q Qplus Qmult Qminus Qdiv Qopp qis0 (fst a) (snd a) (fst b) (snd b)).
Definition qdiv (a b : QP) : QP :=
  (cdiv_re Q 0%Q 1%Q Qplus Qmult Qminus Qdiv Qopp qis0 (fst a) (snd a) (fst b) (snd b), cdiv_im Q 0%Q 1%Q Qplus Qmult Qminus Qdiv Qopp qis0 (fst a) (snd a) (fst b) (snd b)).
Definition qconj (a : QP) : QP := (conj_re Q 0%Q 1%Q Qplus Qmult Qminus Qdiv Qopp qis0 (fst a) (snd a), conj_im Q 0%Q 1%Q Qplus Qmult Qminus Qdiv Qopp qis0 (fst a) (snd a)).
Definition qmodsq (a : QP) : Q := modsq Q 0%Q 1%Q Qplus Qmult Qminus Qdiv Qopp qis0 (fst a) (snd a).
Definition qadd (a b : QP) : QP := (Qplus (fst a) (fst b), Qplus (snd a) (snd b)).
Definition qsum (l : list QP) : QP := fold_left qadd l (0%Q, 0%Q).
Definition qreduce_term (s y : QP) : QP :=
  (reduce_term_re Q 0%Q 1%Q Qplus Qmult Qminus Qdiv Qopp qis0 (fst s) (snd s) (fst y) (snd y), reduce_term_im Q 0%Q 1%Q Qplus Qmult Qminus Qdiv Qopp qis0 (fst s) (snd s) (fst y) (snd y)).
Definition qreduce (S Y : list QP) : QP := qsum (map (fun p => qreduce_term (fst p) (snd p)) (combine S Y)).
Definition qdot_term (a b : QP) : QP :=
  (dot_term_re Q 0%Q 1%Q Qplus Qmult Qminus Qdiv Qopp qis0 (fst a) (snd a) (fst b) (snd b), dot_term_im Q 0%Q 1%Q Qplus Qmult Qminus Qdiv Qopp qis0 (fst a) (snd a) (fst b) (snd b)).
Definition qdot (A B : list QP) : QP := qsum (map (fun p => qdot_term (fst p) (snd p)) (combine A B)).
Definition qexpand (S : list QP) (x : QP) : list QP :=
  map (fun s => (expand_re Q 0%Q 1%Q Qplus Qmult Qminus Qdiv Qopp qis0 (fst s) (snd s) (fst x) (snd x), expand_im Q 0%Q 1%Q Qplus Qmult Qminus Qdiv Qopp qis0 (fst s) (snd s) (fst x) (snd x))) S.
Definition qrss_sq (A : list QP) : Q := fold_left Qplus (map (fun a => rss_sq_term Q 0%Q 1%Q Qplus Qmult Qminus Qdiv Qopp qis0 (fst a) (snd a)) A) 0%Q.

(* complex matrix product through the regenerated real/imaginary formula, with M = real matrix product *)
Definition rmat := list (list Q).
Fixpoint transposeQ (m : rmat) : rmat :=
  match m with
  | [] => []
  | r :: rs => match rs with [] => map (fun x => [x]) r | _ => map (fun p => fst p :: snd p) (combine r (transposeQ rs)) end
  end.
Definition rmm (a b : rmat) : rmat :=
  map (fun row => map (fun col => fold_left Qplus (map (fun p => Qmult (fst p) (snd p)) (combine row col)) 0%Q) (transposeQ b)) a.
Definition madd (a b : rmat) : rmat := map (fun p => map (fun q => Qplus (fst q) (snd q)) (combine (fst p) (snd p))) (combine a b).
Definition msub (a b : rmat) : rmat := map (fun p => map (fun q => Qminus (fst q) (snd q)) (combine (fst p) (snd p))) (combine a b).
Definition qmm (a b : list (list QP)) : list QP :=
  let ar := map (map fst) a in let ai := map (map snd) a in let br := map (map fst) b in let bi := map (map snd) b in
  let re := mm_re rmat [] [] madd rmm msub rmm (fun x => x) (fun _ => false) rmm ar ai br bi in
  let im := mm_im rmat [] [] madd rmm msub rmm (fun x => x) (fun _ => false) rmm ar ai br bi in
  concat (map (fun p => combine (fst p) (snd p)) (combine re im)).

Definition qcanon (p : QP) : (Z * Z) * (Z * Z) :=
  let a := Qred (fst p) in let b := Qred (snd p) in ((Qnum a, Z.pos (Qden a)), (Qnum b, Z.pos (Qden b))).
