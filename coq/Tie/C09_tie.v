(* C09 tie — the stages recognised in the source are the model's normalisation. *)
From Coq Require Import Reals List.
From DV Require Import Model.C09 Proofs.C09.
From G Require Import C09_gen.
Import ListNotations.
Local Open Scope R_scope.

Lemma rss_estimate_map_spec acs : rss_estimate_map acs = normalise acs.
Proof. unfold rss_estimate_map, pipeline_tail_stage, rss_estimate_stage. apply normalise_idempotent. Qed.
Lemma engine_map_spec refined : engine_map refined = normalise refined.
Proof. reflexivity. Qed.
