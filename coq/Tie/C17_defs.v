(* C17 executable definitions: the shape programs with the regenerated padding arithmetic and index maps plugged in
   (used by the proofs and by the shape-trace correspondence). *)
From DV Require Import Base.Tactics Model.C17 Proofs.C17.
From G Require Import C17_gen.
Open Scope Z_scope.

Definition gen_unet2d (L : nat) : list sop := gen_unet2d_layers L.
Definition gen_normunet2d (L : nat) : list sop := padded_prog gen_nu_lo gen_nu_hi gen_nu_start gen_nu_stop (gen_unet2d_layers L).
Definition gen_mwcnn (sc : nat) : list sop := mwcnn_prog gen_mw_pad_idx sc.
Definition gen_didn (D R : nat) : list sop := didn_prog gen_dub_pad_idx D R.
Definition gen_unet3d (L : nat) : list sop :=
  padded_prog (gen_p2_lo (Z.of_nat L)) (gen_p2_hi (Z.of_nat L)) (gen_p2_start (Z.of_nat L)) (gen_p2_stop (Z.of_nat L)) (gen_unet3d_layers L).
Definition gen_normunet3d (L : nat) : list sop := padded_prog gen_nu3_lo gen_nu3_hi gen_nu3_start gen_nu3_stop (gen_unet3d L).

Definition show_trace (t : option (list Z) * list (list Z)) : bool * list Z * list (list Z) :=
  (match fst t with Some _ => true | None => false end, match fst t with Some l => l | None => [] end, snd t).
