(* C11 tie — per-cell partition laws of the regenerated splitter expressions, and the fill counts. *)
From DV Require Import Base.Tactics.
From G Require Import C11_gen C11_defs.
Local Open Scope Z_scope.

(* eligible = sampled, not protected (region or ACS); the fill routines choose target cells among the eligible ones *)
Definition eligible (keep m a r : bool) : bool := if keep then andb m (negb a) else andb m (negb r).

(* gaussian / uniform: for every cell, if the chosen target cell is eligible then
   union = mask, intersection = empty (or ACS when kept), protected cells stay in the input *)
Lemma fill_split_partition (f : bool -> bool * bool * bool * bool -> bool * bool) :
  f = g_cell \/ f = u_cell -> forall keep m a r t,
  (t = true -> eligible keep m a r = true) -> (keep = true -> a = true -> m = true) ->
  let (i, g) := f keep (m, a, r, t) in
  orb i g = m /\ andb i g = (if keep then a else false) /\ (keep = false -> andb r m = true -> i = true).
Proof.
  intros [-> | ->] keep m a r t Ht Ha; unfold g_cell, u_cell, eligible in *;
    cbv beta zeta delta [g_minus_acs g_input g_keep_in g_keep_tg u_minus_acs u_input u_keep_in u_keep_tg];
    destruct keep, m, a, r, t; cbn in *; repeat split; intros; try reflexivity; try discriminate;
    try (specialize (Ht eq_refl); discriminate); try (specialize (Ha eq_refl eq_refl); discriminate).
Qed.

(* half split: a partition of the mask for ANY side predicate (so the float comparison of the diagonal variants needs
   no model), and the protected region stays in the input *)
Lemma half_split_partition keep m a r side : (keep = true -> a = true -> m = true) ->
  let (i, g) := h_cell keep (m, a, r, side) in
  orb i g = m /\ andb i g = (if keep then a else false) /\ (keep = false -> half_honours_region = true -> andb r m = true -> i = true).
Proof.
  intros Ha. unfold h_cell. cbv beta zeta delta [h_input h_target half_honours_region].
  destruct keep, m, a, r, side; cbn in *; repeat split; intros; try reflexivity; try discriminate;
    try (specialize (Ha eq_refl eq_refl); discriminate).
Qed.

Lemma half_region_honoured : half_honours_region = true.
Proof. reflexivity. Qed.

(* the gaussian fill is asked for no more cells than are eligible, so its rejection loop can end (C04 contract) *)
Lemma gaussian_need_le_eligible msum ecount p q : 0 < q -> 0 <= ecount -> g_need (g_count msum ecount p q) <= ecount.
Proof. intros Hq He. cbv beta zeta delta [g_need g_count]. lia. Qed.

(* the uniform fill is asked for floor(eligible * ratio) <= eligible cells, and nothing when nothing is eligible *)
Lemma uniform_count_le_eligible ecount p q : 0 < p < q -> 0 <= ecount -> 0 <= u_count ecount p q <= ecount.
Proof. intros Hp He. cbv beta zeta delta [u_count]. split; [apply Z.div_pos; nia|]. apply Z.div_le_upper_bound; nia. Qed.

Lemma split_seed_is_function_of_filename_and_slice : seed_from_filename_and_slice = true.
Proof. reflexivity. Qed.
