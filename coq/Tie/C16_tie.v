(* C16 tie — the regenerated loop body is, iteration by iteration, the reference accumulation step. *)
From DV Require Import Base.Tactics Model.C16 Proofs.C16.
From G Require Import C16_gen C16_defs.

Lemma step_due_spec it k : (0 < k)%nat -> step_due it k = (S it mod k =? 0)%nat.
Proof.
  intros Hk. unfold step_due. cbv beta zeta delta [step_due_z].
  destruct (S it mod k =? 0)%nat eqn:E.
  - apply Nat.eqb_eq in E. assert (H : (Z.of_nat (S it) mod Z.of_nat k = 0)%Z) by (rewrite <- Nat2Z.inj_mod; lia). lia.
  - apply Nat.eqb_neq in E. assert (H : (Z.of_nat (S it) mod Z.of_nat k <> 0)%Z) by (rewrite <- Nat2Z.inj_mod; lia). lia.
Qed.

Lemma starts_clean : train_starts_with_clean_gradients = true.
Proof. reflexivity. Qed.

Section Generic.
Variables (W G : Type) (g : nat -> W -> G) (gzero : G) (gadd : G -> G -> G) (gdiv : nat -> G -> G)
          (clip : G -> G) (opt : W -> G -> nat -> W).

Lemma iteration_is_ref_step k clipping it (s : st W G) : (0 < k)%nat ->
  iteration W G g gzero gadd gdiv clip opt step_due loop_body k clipping it s
  = ref_step W G g gzero gadd gdiv clip opt k clipping it s.
Proof.
  intros Hk. destruct s as [w gr e].
  unfold iteration, ref_step, post, loop_body.
  cbn [exec_list exec_op params grad epoch].
  rewrite (step_due_spec it k Hk).
  destruct (S it mod k =? 0)%nat; destruct (1 <? k)%nat; destruct clipping; reflexivity.
Qed.

Lemma run_is_ref_run k clipping n : (0 < k)%nat -> forall it (s : st W G),
  run_from W G g gzero gadd gdiv clip opt step_due loop_body k clipping it n s
  = ref_run W G g gzero gadd gdiv clip opt k clipping it n s.
Proof.
  intros Hk. induction n as [|n IH]; intros it s; [reflexivity|].
  cbn [run_from ref_run]. rewrite iteration_is_ref_step by exact Hk. apply IH.
Qed.
End Generic.
