(* C02 — property theorems only: the regenerated real-pair helpers are complex arithmetic over any field. *)
From DV Require Import Base.Tactics.
From Coq Require Import Field Permutation QArith Qcanon.
From G Require Import C02_gen C02_defs C02_tie.

Section AnyField.
Variable R : Type.
Variables (rO rI : R) (radd rmul rsub rdiv : R -> R -> R) (ropp rinv : R -> R) (is0 : R -> bool).
Hypothesis Rfield : field_theory rO rI radd rmul rsub ropp rdiv rinv (@eq R).
Hypothesis is0_spec : forall x, is0 x = true <-> x = rO.

Notation cmulr := (cmul_re R rO rI radd rmul rsub rdiv ropp is0). Notation cmuli := (cmul_im R rO rI radd rmul rsub rdiv ropp is0).
Notation conjr := (conj_re R rO rI radd rmul rsub rdiv ropp is0). Notation conji := (conj_im R rO rI radd rmul rsub rdiv ropp is0).
Notation msq := (modsq R rO rI radd rmul rsub rdiv ropp is0).
Notation cdivr := (cdiv_re R rO rI radd rmul rsub rdiv ropp is0). Notation cdivi := (cdiv_im R rO rI radd rmul rsub rdiv ropp is0).
Notation cden := (cdiv_den R rO rI radd rmul rsub rdiv ropp is0).
Notation INNER := (inner R rO rI radd rmul rsub rdiv ropp is0). Notation EXPAND := (expand1 R rO rI radd rmul rsub rdiv ropp is0).
Notation REDUCE := (reduce1 R rO rI radd rmul rsub rdiv ropp is0). Notation CMUL := (cmul R rO rI radd rmul rsub rdiv ropp is0).
Notation CCONJ := (cconj R rO rI radd rmul rsub rdiv ropp is0). Notation CADD := (cadd R radd). Notation RSS2 := (rss2 R rO rI radd rmul rsub rdiv ropp is0).

Theorem C02_mul_is_complex_product a0 a1 b0 b1 :
  cmulr a0 a1 b0 b1 = rsub (rmul a0 b0) (rmul a1 b1) /\ cmuli a0 a1 b0 b1 = radd (rmul a0 b1) (rmul a1 b0).
Proof. eapply cmul_spec; eassumption. Qed.

Theorem C02_conjugate a0 a1 : conjr a0 a1 = a0 /\ conji a0 a1 = ropp a1.
Proof. eapply conj_spec; eassumption. Qed.

Theorem C02_mul_commutative a0 a1 b0 b1 : cmulr a0 a1 b0 b1 = cmulr b0 b1 a0 a1 /\ cmuli a0 a1 b0 b1 = cmuli b0 b1 a0 a1.
Proof. eapply cmul_comm; eassumption. Qed.

Theorem C02_mul_associative a0 a1 b0 b1 c0 c1 :
  cmulr (cmulr a0 a1 b0 b1) (cmuli a0 a1 b0 b1) c0 c1 = cmulr a0 a1 (cmulr b0 b1 c0 c1) (cmuli b0 b1 c0 c1) /\
  cmuli (cmulr a0 a1 b0 b1) (cmuli a0 a1 b0 b1) c0 c1 = cmuli a0 a1 (cmulr b0 b1 c0 c1) (cmuli b0 b1 c0 c1).
Proof. eapply cmul_assoc; eassumption. Qed.

Theorem C02_modulus_squared a0 a1 b0 b1 :
  cmulr a0 a1 (conjr a0 a1) (conji a0 a1) = msq a0 a1 /\ cmuli a0 a1 (conjr a0 a1) (conji a0 a1) = rO /\
  msq (cmulr a0 a1 b0 b1) (cmuli a0 a1 b0 b1) = rmul (msq a0 a1) (msq b0 b1).
Proof.
  split; [eapply modsq_conj; eassumption|]. split; [eapply modsq_conj; eassumption|]. eapply modsq_mul; eassumption.
Qed.

(* division yields zero where the divisor is zero ... *)
Theorem C02_division_by_zero_is_zero a0 a1 : cdivr a0 a1 rO rO = rO /\ cdivi a0 a1 rO rO = rO.
Proof. eapply cdiv_zero; eassumption. Qed.

(* ... and is the inverse of multiplication elsewhere *)
Theorem C02_division_inverts_multiplication a0 a1 b0 b1 : cden b0 b1 <> rO ->
  (cmulr (cdivr a0 a1 b0 b1) (cdivi a0 a1 b0 b1) b0 b1 = a0 /\ cmuli (cdivr a0 a1 b0 b1) (cdivi a0 a1 b0 b1) b0 b1 = a1) /\
  (cdivr (cmulr a0 a1 b0 b1) (cmuli a0 a1 b0 b1) b0 b1 = a0 /\ cdivi (cmulr a0 a1 b0 b1) (cmuli a0 a1 b0 b1) b0 b1 = a1).
Proof.
  intros Hd. split; [eapply cdiv_mul_cancel; eassumption | eapply cdiv_of_mul; eassumption].
Qed.

(* coil expansion and reduction are adjoint for arbitrary sensitivity maps: <E x, y> = <x, R y> *)
Theorem C02_expand_reduce_adjoint (S Y : list (R * R)) (x : R * R) : length Y = length S ->
  INNER (EXPAND S x) Y = CMUL (CCONJ x) (REDUCE S Y).
Proof. eapply expand_reduce_adjoint; eassumption. Qed.

(* reduction after expansion is the identity when the maps have unit root-sum-of-squares *)
Theorem C02_reduce_expand_identity (S : list (R * R)) (x : R * R) : RSS2 S = rI -> REDUCE S (EXPAND S x) = x.
Proof. eapply reduce_expand_id; eassumption. Qed.

Theorem C02_expand_linear (S : list (R * R)) (x x' a : R * R) :
  EXPAND S (CADD (CMUL a x) x') = map (fun p => CADD (CMUL a (fst p)) (snd p)) (combine (EXPAND S x) (EXPAND S x')).
Proof. eapply expand_linear; eassumption. Qed.

(* reordering the coils of k-space and sensitivity maps together does not change the reduced image *)
Theorem C02_coil_permutation_invariant (SY SY' : list ((R * R) * (R * R))) : Permutation SY SY' ->
  REDUCE (map fst SY) (map snd SY) = REDUCE (map fst SY') (map snd SY').
Proof. eapply reduce_perm_invariant; eassumption. Qed.
End AnyField.

Print Assumptions C02_mul_is_complex_product.
Print Assumptions C02_division_by_zero_is_zero.
Print Assumptions C02_division_inverts_multiplication.
Print Assumptions C02_expand_reduce_adjoint.
Print Assumptions C02_reduce_expand_identity.
Print Assumptions C02_coil_permutation_invariant.

(* the hypotheses are satisfiable: the canonical rationals form such a field *)
Example C02_field_exists : exists (is0 : Qc -> bool),
  field_theory 0%Qc 1%Qc Qcplus Qcmult Qcminus Qcopp Qcdiv Qcinv (@eq Qc) /\ (forall x, is0 x = true <-> x = 0%Qc).
Proof.
  exists (fun x => if Qc_eq_dec x 0%Qc then true else false). split; [exact Qcft|].
  intros x. destruct (Qc_eq_dec x 0%Qc); split; congruence.
Qed.

Example C02_example : qcanon (qdiv (qmul (3 # 1, -2 # 1) (1 # 2, 4 # 1)) (1 # 2, 4 # 1)) = ((3, 1), (-2, 1))%Z
  /\ qcanon (qdiv (3 # 1, -2 # 1) (0%Q, 0%Q)) = ((0, 1), (0, 1))%Z.
Proof. vm_compute. split; reflexivity. Qed.
