(* C10 — property theorems only. *)
From DV Require Import Base.Tactics Base.NList Model.C10 Proofs.C10.
From G Require Import C10_gen C10_defs C10_tie.
Open Scope Z_scope.

(* centre crop: guard = documented precondition; window starts at floor((n - m)/2) and has the requested size *)
Theorem C10_center_crop_window n2 n1 m2 m1 :
  (cc_raises n2 n1 m2 m1 = false <-> (0 < m2 <= n2 /\ 0 < m1 <= n1)) /\
  (0 < m2 <= n2 -> 0 < m1 <= n1 ->
   cc_lo2 n2 n1 m2 m1 = (n2 - m2) / 2 /\ cc_hi2 n2 n1 m2 m1 = (n2 - m2) / 2 + m2 /\
   cc_lo1 n2 n1 m2 m1 = (n1 - m1) / 2 /\ cc_hi1 n2 n1 m2 m1 = (n1 - m1) / 2 + m1 /\
   0 <= cc_lo2 n2 n1 m2 m1 /\ cc_hi2 n2 n1 m2 m1 <= n2 /\ 0 <= cc_lo1 n2 n1 m2 m1 /\ cc_hi1 n2 n1 m2 m1 <= n1).
Proof. exact (conj (cc_guard_spec n2 n1 m2 m1) (cc_window_spec n2 n1 m2 m1)). Qed.
Print Assumptions C10_center_crop_window.

(* bounding-box crop along an axis: requested length; element k is data[c+k] when addressed, the pad value otherwise *)
Theorem C10_bbox_crop_spec (A : Type) c s (v : A) l k : 0 <= k < s ->
  length (crop1 c s v l) = Z.to_nat s /\
  nth (Z.to_nat k) (crop1 c s v l) v =
    if ((0 <=? c + k) && (c + k <? Z.of_nat (length l))) then nth (Z.to_nat (c + k)) l v else v.
Proof. intros Hk. exact (conj (crop1_length c s v l ltac:(lia)) (crop1_nth c s v l k Hk)). Qed.
Print Assumptions C10_bbox_crop_spec.

(* complex_center_crop addresses the central window, which lies inside the data (so no padding occurs) *)
Theorem C10_complex_center_crop_is_center (A : Type) n m (v : A) l : 0 < m <= n -> Z.of_nat (length l) = n ->
  ccc_start n m = (n - m) / 2 /\
  crop1 (ccc_start n m) (ccc_size n m) v l = window (Z.to_nat ((n - m) / 2)) (Z.to_nat m) l.
Proof.
  intros Hm Hl. destruct (ccc_spec n m Hm) as (E1 & E2 & E3 & E4). split; [exact E1|].
  rewrite crop1_inside by lia. rewrite E1, E2. reflexivity.
Qed.
Print Assumptions C10_complex_center_crop_is_center.

(* ... and a crop that does not fit is rejected, never answered by an off-centre zero-filled window: the guard regenerated
   from complex_center_crop raises exactly when a requested size exceeds the data (a difference of -1 included, where
   truncation towards zero and floor part ways) *)
Theorem C10_complex_center_crop_rejects_exactly_oversize na nb ma mb :
  ccc_raises na nb ma mb = true <-> (na < ma \/ nb < mb).
Proof.
  pose proof (ccc_guard_spec na nb ma mb) as [H1 H2].
  destruct (ccc_raises na nb ma mb) eqn:E.
  - split; [intros _|reflexivity]. destruct (Z_le_gt_dec ma na) as [Ha|Ha]; [|lia]. destruct (Z_le_gt_dec mb nb) as [Hb|Hb]; [|lia].
    specialize (H2 (conj Ha Hb)). discriminate.
  - split; [discriminate|]. intros Hor. specialize (H1 eq_refl). lia.
Qed.
Print Assumptions C10_complex_center_crop_rejects_exactly_oversize.

(* where pad_tensor puts the data: floor(diff/2) before it on every axis, total = target *)
Theorem C10_pad_tensor_window2 t0 t1 i0 i1 : 0 <= i0 <= t0 -> 0 <= i1 <= t1 ->
  exists l1 r1 l0 r0, pad_list2 t0 t1 i0 i1 = [l1; r1; l0; r0] /\
    l0 = (t0 - i0) / 2 /\ l0 + i0 + r0 = t0 /\ 0 <= r0 /\
    l1 = (t1 - i1) / 2 /\ l1 + i1 + r1 = t1 /\ 0 <= r1.
Proof. exact (pad_list2_spec t0 t1 i0 i1). Qed.
Print Assumptions C10_pad_tensor_window2.

Theorem C10_pad_tensor_window3 t0 t1 t2 i0 i1 i2 : 0 <= i0 <= t0 -> 0 <= i1 <= t1 -> 0 <= i2 <= t2 ->
  exists l2 r2 l1 r1 l0 r0, pad_list3 t0 t1 t2 i0 i1 i2 = [l2; r2; l1; r1; l0; r0] /\
    l0 = (t0 - i0) / 2 /\ l0 + i0 + r0 = t0 /\ 0 <= r0 /\
    l1 = (t1 - i1) / 2 /\ l1 + i1 + r1 = t1 /\ 0 <= r1 /\
    l2 = (t2 - i2) / 2 /\ l2 + i2 + r2 = t2 /\ 0 <= r2.
Proof. exact (pad_list3_spec t0 t1 t2 i0 i1 i2). Qed.
Print Assumptions C10_pad_tensor_window3.

(* pad to a larger shape, centre-crop back: identity, for every shape and every (odd or even) size difference *)
Theorem C10_crop_pad_id (A : Type) (v : A) (x : nl 2 A) (h w H W : nat) :
  rect 2 [h; w] x -> (0 < h <= H)%nat -> (0 < w <= W)%nat ->
  center_crop_gen 0 (Z.of_nat H) (Z.of_nat W) (Z.of_nat h) (Z.of_nat w)
    (pad_tensor_gen2 2 (Z.of_nat H) (Z.of_nat W) (Z.of_nat h) (Z.of_nat w) v x) = Some x.
Proof. exact (pad_then_center_crop_id v x h w H W). Qed.
Print Assumptions C10_crop_pad_id.

(* the same for any rank and any per-axis pad amounts, in the list model *)
Theorem C10_window_of_padded (A : Type) r ps sizes (v : A) (t : nl r A) :
  rect r sizes t -> window_nd r (map fst ps) sizes (pad_nd r ps v t) = t.
Proof. exact (window_nd_pad_nd r ps sizes v t). Qed.
Print Assumptions C10_window_of_padded.

(* k-space crop/pad = forward(crop/pad(backward k)): backward of the result is the cropped/padded image, given the
   inverse-pair contract of the Fourier operators (C01) *)
Section KspaceCropPad.
  Variables (K I : Type) (F : I -> K) (Finv : K -> I) (op : I -> I).
  Hypothesis Finv_F : forall x, Finv (F x) = x.
  Lemma kspace_op_is_image_op k : Finv (F (op (Finv k))) = op (Finv k).
  Proof. apply Finv_F. Qed.
End KspaceCropPad.
Theorem C10_kspace_crop_pad_is_image_crop_pad (K I : Type) (F : I -> K) (Finv : K -> I) (op : I -> I) :
  (forall x, Finv (F x) = x) -> forall k, Finv (F (op (Finv k))) = op (Finv k).
Proof. exact (kspace_op_is_image_op K I F Finv op). Qed.
Print Assumptions C10_kspace_crop_pad_is_image_crop_pad.

(* non-vacuity *)
Example C10_example : center_crop_gen 0 2 3 1 2 (pad_tensor_gen2 2 2 3 1 2 0 ([[5; 6]] : nl 2 Z)) = Some [[5; 6]].
Proof. vm_compute. reflexivity. Qed.
