(* C01 — property theorems (shifts and transform skeleton); the DFT algebra is in C01_dft_props.v. *)
From DV Require Import Base.Tactics Base.NList Base.Rot Model.C01 Model.C01_ops Proofs.C01.
From G Require Import C01_gen C01_defs C01_tie.
Open Scope Z_scope.

(* roll_one_dim, as regenerated from the source, is the cyclic rotation by (shift mod n), any sign of the shift *)
Theorem C01_roll_is_rotation (A : Type) (s : Z) (l : list A) : l <> [] ->
  roll1_gen s l = rotr (Z.to_nat (s mod Z.of_nat (length l))) l.
Proof. exact (roll1_gen_is_rotr s l). Qed.
Print Assumptions C01_roll_is_rotation.

(* shift amounts: n // 2 and (n + 1) // 2 *)
Theorem C01_shift_amounts n : 0 <= n -> fftshift_amount n = n / 2 /\ ifftshift_amount n = (n + 1) / 2.
Proof. exact (shift_amounts n). Qed.
Print Assumptions C01_shift_amounts.

(* dim=None shifts every axis *)
Theorem C01_default_axes i : 0 <= i -> fftshift_default_axis i = i /\ ifftshift_default_axis i = i.
Proof. exact (default_axes i). Qed.
Print Assumptions C01_default_axes.

(* the spectrum-shift helpers are mutual inverses for every length (1, odd, even) *)
Theorem C01_shifts_inverse_1d (A : Type) (l : list A) :
  roll1_gen (ifftshift_amount (Z.of_nat (length l))) (roll1_gen (fftshift_amount (Z.of_nat (length l))) l) = l /\
  roll1_gen (fftshift_amount (Z.of_nat (length l))) (roll1_gen (ifftshift_amount (Z.of_nat (length l))) l) = l.
Proof. exact (shifts_inverse_1d l). Qed.
Print Assumptions C01_shifts_inverse_1d.

(* ... and agree with the reference shift: out[k] = in[(k - n/2) mod n], the zero-frequency sample lands at index n/2 *)
Theorem C01_fftshift_reference (A : Type) (l : list A) k d : (k < length l)%nat ->
  nth k (rotr (length l / 2) l) d = nth ((k + length l - (length l / 2) mod length l) mod length l) l d.
Proof. exact (fftshift_reference l k d). Qed.
Print Assumptions C01_fftshift_reference.

Theorem C01_fftshift_dc_at_center (A : Type) (l : list A) d : (0 < length l)%nat ->
  nth (length l / 2) (rotr (length l / 2) l) d = nth 0%nat l d.
Proof. exact (fftshift_dc_at_center l d). Qed.
Print Assumptions C01_fftshift_dc_at_center.

(* N-d: for every rank, every shape with positive sizes and every list of axes (repetitions allowed) the two shifts
   are mutual inverses at every index *)
Theorem C01_shifts_inverse_nd (A : Type) (shape dims : list nat) (f : @tensor A) idx :
  valid shape idx -> Forall (fun d => (d < length shape)%nat) dims ->
  ifftshift_nd shape dims (fftshift_nd shape dims f) idx = f idx /\
  fftshift_nd shape dims (ifftshift_nd shape dims f) idx = f idx.
Proof. exact (ifftshift_fftshift_nd shape dims f idx). Qed.
Print Assumptions C01_shifts_inverse_nd.

(* the operation sequences regenerated from fft2 / ifft2: shift, transform, shift back, wrapped by the layout views,
   and mutual inverses for all 8 settings of centered / normalized / complex_input, given the transform contract *)
Theorem C01_fft2_ifft2_inverse (T : Type) (vc vr ishift fshift : T -> T) (F Finv : bool -> T -> T) :
  (forall t, vc (vr t) = t) -> (forall t, vr (vc t) = t) ->
  (forall t, ishift (fshift t) = t) -> (forall t, fshift (ishift t) = t) ->
  (forall b t, Finv b (F b t) = t) -> (forall b t, F b (Finv b t) = t) ->
  forall c n ci t,
    run T vc vr ishift fshift F Finv c n ci (ifft2_tab c ci) (run T vc vr ishift fshift F Finv c n ci (fft2_tab c ci) t) = t /\
    run T vc vr ishift fshift F Finv c n ci (fft2_tab c ci) (run T vc vr ishift fshift F Finv c n ci (ifft2_tab c ci) t) = t.
Proof.
  intros H1 H2 H3 H4 H5 H6 c n ci t.
  exact (conj (ifft2_fft2_id T vc vr ishift fshift F Finv H1 H2 H3 H4 H5 c n ci t)
              (fft2_ifft2_id T vc vr ishift fshift F Finv H1 H2 H3 H4 H6 c n ci t)).
Qed.
Print Assumptions C01_fft2_ifft2_inverse.

Theorem C01_fft2_is_shifted_transform (T : Type) (vc vr ishift fshift : T -> T) (F Finv : bool -> T -> T) c n ci t :
  run T vc vr ishift fshift F Finv c n ci (fft2_tab c ci) t =
  (if ci then vr else fun x => x) ((if c then fshift else fun x => x) (F n ((if c then ishift else fun x => x) ((if ci then vc else fun x => x) t)))).
Proof. exact (fft2_shape T vc vr ishift fshift F Finv c n ci t). Qed.
Print Assumptions C01_fft2_is_shifted_transform.

Example C01_example : roll1_gen (ifftshift_amount 5) (roll1_gen (fftshift_amount 5) [1; 2; 3; 4; 5]) = [1; 2; 3; 4; 5]
  /\ roll1_gen (fftshift_amount 5) [1; 2; 3; 4; 5] = [4; 5; 1; 2; 3].
Proof. vm_compute. split; reflexivity. Qed.
