(* C09 — property theorems only (exact real arithmetic). *)
From Coq Require Import Reals List Lra.
From DV Require Import Model.C09 Proofs.C09.
From G Require Import C09_gen C09_tie.
Import ListNotations.
Local Open Scope R_scope.

(* RSS-estimated maps (pipeline) at every location: unit sum of squared magnitudes over coils where the ACS image has
   signal, exactly zero where it has none - for any number of coils (one coil included), any ACS image (all-zero
   coils, empty ACS) *)
Theorem C09_rss_estimate_normalised acs :
  (sumsq acs <> 0 -> sumsq (rss_estimate_map acs) = 1) /\ (sumsq acs = 0 -> forall a, In a (rss_estimate_map acs) -> a = (0, 0)).
Proof. rewrite rss_estimate_map_spec. exact (normalise_sum acs). Qed.
Print Assumptions C09_rss_estimate_normalised.

(* refined maps (engines): whatever the refinement network returned *)
Theorem C09_engine_maps_normalised refined :
  (sumsq refined <> 0 -> sumsq (engine_map refined) = 1) /\ (sumsq refined = 0 -> forall a, In a (engine_map refined) -> a = (0, 0)).
Proof. rewrite engine_map_spec. exact (normalise_sum refined). Qed.
Print Assumptions C09_engine_maps_normalised.

Theorem C09_sum_is_zero_or_one l : sumsq (normalise l) = 1 \/ sumsq (normalise l) = 0.
Proof. exact (normalise_sum_zero_or_one l). Qed.
Print Assumptions C09_sum_is_zero_or_one.

(* the second normalisation of the pipeline is idempotent; shapes are kept *)
Theorem C09_renormalisation_idempotent l : normalise (normalise l) = normalise l /\ length (normalise l) = length l.
Proof. exact (conj (normalise_idempotent l) (normalise_length l)). Qed.
Print Assumptions C09_renormalisation_idempotent.

(* unit maps: 1 + 0i in every coil, renormalised: unit sum for any positive number of coils *)
Theorem C09_unit_map_normalised coils : (0 < coils)%nat -> sumsq (unit_map coils) = 1.
Proof.
  intros Hc. unfold unit_map, pipeline_tail_stage. apply normalise_sum.
  destruct coils as [|c]; [inversion Hc|]. cbn [repeat sumsq fold_right fst snd].
  pose proof (sumsq_nonneg (repeat (1, 0) c)) as H. unfold sumsq in H. lra.
Qed.
Print Assumptions C09_unit_map_normalised.
