(* C14 — property theorems only.  Names, items, outputs and the per-slice function are arbitrary. *)
From DV Require Import Base.Tactics Base.ListAux Model.C14 Proofs.C14.

(* for every sequence of volumes delivered as non-empty batches of consecutive slices: exactly one output per volume,
   in order, whose k-th slice is the processed model output of the k-th slice; nothing dropped, duplicated or
   attributed to another volume *)
Theorem C14_reconstruct_spec (Name I O : Type) (name_eqb : Name -> Name -> bool) (f : I -> O) (vsize : Name -> nat)
  (vols : list (Name * list (list I))) :
  (forall a b, name_eqb a b = true <-> a = b) ->
  NoDup (map fst vols) -> Forall (good_vol Name I vsize) vols ->
  reconstruct Name I O name_eqb f vsize (batches_of Name I vols) = Some (expected Name I O f vols).
Proof. intros Heq. exact (reconstruct_spec Name I O name_eqb Heq f vsize vols). Qed.
Print Assumptions C14_reconstruct_spec.

(* with the batches of the volume batch sampler (C13) the result is independent of the batch size *)
Theorem C14_batch_size_irrelevant (Name I O : Type) (name_eqb : Name -> Name -> bool) (f : I -> O) (vsize : Name -> nat)
  (bs : nat) (vols : list (Name * list I)) :
  (forall a b, name_eqb a b = true <-> a = b) -> (0 < bs)%nat ->
  NoDup (map fst vols) -> Forall (fun v => snd v <> [] /\ vsize (fst v) = length (snd v)) vols ->
  reconstruct Name I O name_eqb f vsize (batches_of Name I (map (fun v => (fst v, chunk_list bs (snd v))) vols))
  = Some (map (fun v => (fst v, map f (snd v))) vols).
Proof. intros Heq. exact (reconstruct_with_sampler Name I O name_eqb Heq f vsize bs vols). Qed.
Print Assumptions C14_batch_size_irrelevant.

Example C14_example :
  reconstruct nat nat nat Nat.eqb (fun x => x * 2) (fun nm => nth nm [3; 2] 0)
    [(0, [1; 2]); (0, [3]); (1, [4; 5])] = Some [(0, [2; 4; 6]); (1, [8; 10])].
Proof. vm_compute. reflexivity. Qed.
