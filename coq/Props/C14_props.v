(* C14 — property theorems only.  Names, items, outputs and the per-slice function are arbitrary. *)
From DV Require Import Base.Tactics Base.ListAux Model.C14 Proofs.C14 Model.C14_skel Proofs.C14_skel.
From G Require Import C14_gen C14_tie.

(* for every sequence of volumes delivered as non-empty batches of consecutive slices: exactly one output per volume,
   in order, whose k-th slice is the processed model output of the k-th slice; nothing dropped, duplicated or
   attributed to another volume *)
Theorem C14_reconstruct_spec (Name I O : Type) (name_eqb : Name -> Name -> bool) (f : I -> O) (vsize : Name -> nat)
  (vols : list (Name * list (list I))) :
  (forall a b, name_eqb a b = true <-> a = b) ->
  NoDup (map fst vols) -> Forall (good_vol Name I vsize) vols ->
  reconstruct Name I O name_eqb f vsize (batches_of Name I vols) = Some (expected Name I O f vols).
Proof. intros Heq. exact (reconstruct_spec Name I O name_eqb Heq f vsize vols). Qed.
Print Assumptions C14_reconstruct_spec.

(* with the batches of the volume batch sampler (C13) the result is independent of the batch size *)
Theorem C14_batch_size_irrelevant (Name I O : Type) (name_eqb : Name -> Name -> bool) (f : I -> O) (vsize : Name -> nat)
  (bs : nat) (vols : list (Name * list I)) :
  (forall a b, name_eqb a b = true <-> a = b) -> (0 < bs)%nat ->
  NoDup (map fst vols) -> Forall (fun v => snd v <> [] /\ vsize (fst v) = length (snd v)) vols ->
  reconstruct Name I O name_eqb f vsize (batches_of Name I (map (fun v => (fst v, chunk_list bs (snd v))) vols))
  = Some (map (fun v => (fst v, map f (snd v))) vols).
Proof. intros Heq. exact (reconstruct_with_sampler Name I O name_eqb Heq f vsize bs vols). Qed.
Print Assumptions C14_batch_size_irrelevant.

(* the loop body regenerated from the source (buffer of volume_size slots, slice assignment, yield when the counter reaches
   the volume size) yields, for the same batches, exactly the volumes of the state machine, as completely filled buffers *)
Theorem C14_source_loop_refines_state_machine (Name I Out : Type) (name_eqb : Name -> Name -> bool) (f : I -> Out) (vsize : Name -> nat)
  (batches : list (Name * list I)) (ys : list (Name * list Out)) :
  (forall a b, name_eqb a b = true <-> a = b) ->
  reconstruct Name I Out name_eqb f vsize batches = Some ys ->
  option_map snd (zrun_f Name Out name_eqb vsize 3 gen_body (zst0 Name Out) (map (fun b => (fst b, map f (snd b))) batches))
  = Some (map (fun y => (fst y, map Some (snd y))) ys).
Proof. intros Heq H. rewrite (zrun_f_ext Name Out name_eqb vsize 3 gen_body (gen_body_tie Name Out name_eqb vsize Heq)). exact (reconstruct_refines Name I Out name_eqb Heq f vsize batches ys H). Qed.
Print Assumptions C14_source_loop_refines_state_machine.

(* end to end over the regenerated code: on the batches the volume batch sampler delivers (C13), for any batch size, the
   loop body as it stands in the source yields every volume exactly once, in order, as a completely filled buffer whose
   k-th slot is the processed output of the k-th slice *)
Theorem C14_source_loop_on_sampler_batches (Name I Out : Type) (name_eqb : Name -> Name -> bool) (f : I -> Out) (vsize : Name -> nat)
  (bs : nat) (vols : list (Name * list I)) :
  (forall a b, name_eqb a b = true <-> a = b) -> (0 < bs)%nat ->
  NoDup (map fst vols) -> Forall (fun v => snd v <> [] /\ vsize (fst v) = length (snd v)) vols ->
  option_map snd (zrun_f Name Out name_eqb vsize 3 gen_body (zst0 Name Out)
                    (map (fun b => (fst b, map f (snd b))) (batches_of Name I (map (fun v => (fst v, chunk_list bs (snd v))) vols))))
  = Some (map (fun v => (fst v, map Some (map f (snd v)))) vols).
Proof.
  intros Heq Hbs Hnd Hgood.
  rewrite (C14_source_loop_refines_state_machine Name I Out name_eqb f vsize _ _ Heq
             (C14_batch_size_irrelevant Name I Out name_eqb f vsize bs vols Heq Hbs Hnd Hgood)).
  rewrite map_map. reflexivity.
Qed.
Print Assumptions C14_source_loop_on_sampler_batches.

Local Open Scope nat_scope.
Example C14_example :
  reconstruct nat nat nat Nat.eqb (fun x => x * 2) (fun nm => nth nm [3; 2] 0)
    [(0, [1; 2]); (0, [3]); (1, [4; 5])] = Some [(0, [2; 4; 6]); (1, [8; 10])].
Proof. vm_compute. reflexivity. Qed.
