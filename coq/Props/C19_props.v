(* C19 — property theorems only. *)
From DV Require Import Base.Tactics Base.OpIR.
From Coq Require Import QArith.
From G Require Import C19_gen C19_tie.

(* the likelihood block regenerated from MRILogLikelihood.forward is A*(A x - M y) with A = M F E, A* = R F^-1 M *)
Theorem C19_loglik_is_normal_residual (T M S : Type) where0 wherepad F Finv expand reduce sub add scale layout rt rm rs :
  (forall tag t, layout tag t = t) -> (forall t, scale (rs 0) t = t) ->
  (forall m a b, where0 m (sub a b) = sub (where0 m a) (where0 m b)) -> (forall m a, where0 m (where0 m a) = where0 m a) ->
  eval T M S where0 wherepad F Finv expand reduce sub add scale layout rt rm rs loglik_t
  = Astar T M where0 Finv reduce rt rm (sub (Aop T M where0 F expand rt rm (rt 1)) (where0 (rm 0) (rt 0))).
Proof. exact (loglik_is_normal_residual T M S where0 wherepad F Finv expand reduce sub add scale layout rt rm rs). Qed.
Print Assumptions C19_loglik_is_normal_residual.

(* ... and that is the gradient of Phi/2 = 1/2 ||A x - b||^2: exact expansion Phi(x+h) = Phi(x) + 2 <g(x), h> + ||A h||^2
   for every x, h, b, in any real inner-product space with A linear and A* its adjoint *)
Theorem C19_gradient_identity (X Y R : Type) rO rI radd rmul rsub ropp xadd yadd ysub ipX ipY A As b :
  ring_theory rO rI radd rmul rsub ropp (@eq R) ->
  (forall x h, A (xadd x h) = yadd (A x) (A h)) -> (forall a c d, ysub (yadd a c) d = yadd (ysub a d) c) ->
  (forall a c d, ipY (yadd a c) d = radd (ipY a d) (ipY c d)) -> (forall a c, ipY a c = ipY c a) ->
  (forall x k, ipY (A x) k = ipX x (As k)) -> (forall a c, ipX a c = ipX c a) ->
  forall x h : X, Phi X Y R ysub ipY A b (xadd x h)
    = radd (Phi X Y R ysub ipY A b x) (radd (rmul (radd rI rI) (ipX (grad X Y ysub A As b x) h)) (ipY (A h) (A h))).
Proof. intros. eapply gradient_identity; eassumption. Qed.
Print Assumptions C19_gradient_identity.

(* the regularised normal operator of the conjugate-gradient block: B x = A*A x + lambda x, its A*A part self-adjoint *)
Theorem C19_normal_operator (T M S : Type) where0 wherepad F Finv expand reduce sub add scale layout rt rm rs :
  eval T M S where0 wherepad F Finv expand reduce sub add scale layout rt rm rs b_op_t
  = add (reduce (Finv (Aop T M where0 F expand rt rm (rt 1))) (rt 2)) (scale (rs 1) (rt 1)).
Proof. exact (b_op_is_normal_operator T M S where0 wherepad F Finv expand reduce sub add scale layout rt rm rs). Qed.
Print Assumptions C19_normal_operator.

(* conjugate gradients: for every number of iterations, every step-size rule and every beta rule (FR, PRP, DY, ...) the
   residual carried by the regenerated updates is b - B x_k, with b = A* y + lambda z *)
Theorem C19_cg_residual_invariant (V K : Type) vadd vsub smul dot sdiv Bl As lam b n step dir :
  (forall x a p, Bl (vadd x (smul a p)) = vadd (Bl x) (smul a (Bl p))) -> (forall b u w, vsub (vsub b u) w = vsub b (vadd u w)) ->
  forall x r p : V, r = vsub b (Bl x) ->
  snd (cg_run V K vadd vsub smul dot sdiv Bl As lam n step dir x r p)
  = vsub b (Bl (fst (cg_run V K vadd vsub smul dot sdiv Bl As lam n step dir x r p))).
Proof. intros H1 H2. exact (cg_residual_invariant V K vadd vsub smul dot sdiv Bl As lam H1 H2 b n step dir). Qed.
Print Assumptions C19_cg_residual_invariant.

Theorem C19_cg_right_hand_side (V K : Type) vadd vsub smul dot sdiv Bl As lam (y z : V) :
  cg_b V K vadd vsub smul dot sdiv Bl As lam y z = vadd (As y) (smul lam z).
Proof. exact (cg_rhs V K vadd vsub smul dot sdiv Bl As lam y z). Qed.

(* non-vacuity: the hypotheses of the gradient theorem hold for X = Y = R = Z with A = multiplication by 3 *)
Example C19_gradient_instance :
  Phi Z Z Z Z.sub Z.mul (fun x => 3 * x)%Z 5%Z (2 + 7)%Z
  = (Phi Z Z Z Z.sub Z.mul (fun x => 3 * x)%Z 5%Z 2 + ((1 + 1) * (grad Z Z Z.sub (fun x => 3 * x)%Z (fun k => 3 * k)%Z 5%Z 2 * 7) + (3 * 7) * (3 * 7)))%Z.
Proof. vm_compute. reflexivity. Qed.

Example C19_example : qcanon1 (eval1 2 1 3 true 1 loglik_t) = (15, 1)%Z /\ qcanon1 (eval1 2 1 3 false 1 loglik_t) = (0, 1)%Z.
Proof. vm_compute. split; reflexivity. Qed.

Theorem C19_cg_tolerance_exit_returns_a_consistent_state : cg_exit_after = [0; 1; 2]%nat.
Proof. exact cg_exit_after_tie. Qed.
Print Assumptions C19_cg_tolerance_exit_returns_a_consistent_state.
