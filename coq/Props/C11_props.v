(* C11 — property theorems only. *)
From DV Require Import Base.Tactics.
From G Require Import C11_gen C11_defs C11_tie.
Local Open Scope Z_scope.

(* uniform and gaussian splitters, cell by cell, for every mask, ACS mask, protected region and every output of the
   fill routine inside the eligible set: union = mask, intersection = empty (exactly the ACS when it is kept),
   sampled cells of the protected region stay in the input *)
Theorem C11_fill_split_is_partition (f : bool -> bool * bool * bool * bool -> bool * bool) :
  f = g_cell \/ f = u_cell -> forall keep m a r t,
  (t = true -> eligible keep m a r = true) -> (keep = true -> a = true -> m = true) ->
  let (i, g) := f keep (m, a, r, t) in
  orb i g = m /\ andb i g = (if keep then a else false) /\ (keep = false -> andb r m = true -> i = true).
Proof. exact (fill_split_partition f). Qed.
Print Assumptions C11_fill_split_is_partition.

(* half splitter, all four directions at once (any side predicate) *)
Theorem C11_half_split_is_partition keep m a r side : (keep = true -> a = true -> m = true) ->
  let (i, g) := h_cell keep (m, a, r, side) in
  orb i g = m /\ andb i g = (if keep then a else false) /\ (keep = false -> half_honours_region = true -> andb r m = true -> i = true).
Proof. exact (half_split_partition keep m a r side). Qed.
Print Assumptions C11_half_split_is_partition.

Theorem C11_half_honours_protected_region : half_honours_region = true.
Proof. exact half_region_honoured. Qed.

(* termination: the gaussian splitter never asks its rejection kernel for more cells than are eligible; the uniform
   splitter asks for floor(eligible * ratio) <= eligible *)
Theorem C11_gaussian_request_feasible msum ecount p q : 0 < q -> 0 <= ecount -> g_need (g_count msum ecount p q) <= ecount.
Proof. exact (gaussian_need_le_eligible msum ecount p q). Qed.
Print Assumptions C11_gaussian_request_feasible.

Theorem C11_uniform_request_feasible ecount p q : 0 < p < q -> 0 <= ecount -> 0 <= u_count ecount p q <= ecount.
Proof. exact (uniform_count_le_eligible ecount p q). Qed.
Print Assumptions C11_uniform_request_feasible.

Theorem C11_split_seed : seed_from_filename_and_slice = true.
Proof. exact split_seed_is_function_of_filename_and_slice. Qed.

Example C11_example : g_model false [true; true; false; true] [false; false; false; false] [true; false; false; false] [false; true; false; false]
  = ([true; false; false; true], [false; true; false; false]).
Proof. vm_compute. reflexivity. Qed.
