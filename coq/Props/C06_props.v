(* C06 — property theorems only. *)
From DV Require Import Base.Tactics.
From G Require Import C06_gen C06_defs C06_tie.
Open Scope Z_scope.

(* line generators: the ACS is exactly L contiguous columns lo .. lo+L-1 inside the width, for every width and count *)
Theorem C06_center_window N L : 0 <= L <= N -> 0 <= cm_lo N L /\ cm_hi N L = cm_lo N L + L /\ cm_hi N L <= N.
Proof. exact (center_window N L). Qed.
Print Assumptions C06_center_window.

(* ... that contain the k-space centre column N // 2 ... *)
Theorem C06_center_contains_dc N L : 1 <= L <= N -> cm_lo N L <= N / 2 < cm_hi N L.
Proof. exact (center_contains_dc N L). Qed.
Print Assumptions C06_center_contains_dc.

(* ... and are balanced around it to within one column, for odd and even widths and counts *)
Theorem C06_center_balanced N L : 1 <= L <= N -> Z.abs ((N / 2 - cm_lo N L) - (cm_hi N L - 1 - N / 2)) <= 1.
Proof. exact (center_balanced N L). Qed.
Print Assumptions C06_center_balanced.

(* offset-equispaced ("magic") masks: the count is capped by the sampling budget and is at least one *)
Theorem C06_magic_cap L0 target : 1 <= magic_L L0 target /\ magic_L L0 target <= Z.max L0 1 /\ magic_L L0 target <= Z.max target 1.
Proof. exact (magic_cap L0 target). Qed.
Print Assumptions C06_magic_cap.

(* 2-D generators: the ACS disc is point-symmetric about the centre sample (n // 2, m // 2) and contains it iff r >= 1 *)
Theorem C06_disc_point_symmetric n m r x y : disk_in n m r x y = disk_in n m r (2 * (n / 2) - x) (2 * (m / 2) - y).
Proof. exact (disk_point_symmetric n m r x y). Qed.
Print Assumptions C06_disc_point_symmetric.

Theorem C06_disc_contains_centre n m r : disk_in n m r (n / 2) (m / 2) = (0 <? r * r).
Proof. exact (disk_contains_centre n m r). Qed.
Print Assumptions C06_disc_contains_centre.

Example C06_example : center_cols 9 4 = [3; 4; 5; 6] /\ center_cols 8 3 = [3; 4; 5] /\ disk_cells 3 4 1 = [(1, 2)].
Proof. vm_compute. repeat split; reflexivity. Qed.
