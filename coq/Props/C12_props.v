(* C12 — property theorems only. *)
From DV Require Import Base.Tactics Base.ListAux Model.C12 Proofs.C12.
From G Require Import C12_gen C12_defs C12_tie.

(* the regenerated range bookkeeping of parse_filenames_data is the model's fold, for every file list and filter *)
Theorem C12_parse_code_is_model files flt cur k : parse_gen_from (Z.of_nat cur) k files flt = parse_from cur k files flt.
Proof. exact (parse_gen_eq files flt cur k). Qed.
Print Assumptions C12_parse_code_is_model.

(* per-volume index ranges are contiguous, ordered, and partition 0 .. len-1 (also with a slice filter, also when a
   volume is empty after filtering) *)
Theorem C12_ranges_partition files flt :
  chained 0 (snd (parse files flt)) (length (fst (parse files flt))) /\ length (snd (parse files flt)) = length files.
Proof. exact (conj (parse_ranges_chained 0 0 files flt) (parse_from_ranges_length 0 0 files flt)). Qed.
Print Assumptions C12_ranges_partition.

(* the items in the i-th range are the admissible slices of the i-th file, in order *)
Theorem C12_item_designated files flt i a b n :
  nth_error (snd (parse files flt)) i = Some (a, b) -> nth_error files i = Some n ->
  slice a (b - a) (fst (parse files flt)) = map (fun s => (i, s)) (admissible flt n).
Proof.
  intros Hr Hf. destruct (parse_item 0 0 files flt i a b n Hr Hf) as [_ H].
  rewrite Nat.sub_0_r in H. exact H.
Qed.
Print Assumptions C12_item_designated.

(* context window: 2c+1 entries; entry j is slice s-c+j of the file when that exists, a zero slice otherwise *)
Theorem C12_window_spec c s n filtered j : (s < n)%nat -> (0 < c)%nat -> (j < 2 * c + 1)%nat ->
  length (window_gen c s n filtered) = (2 * c + 1)%nat /\
  nth j (window_gen c s n filtered) None = if ((c <=? s + j) && (s + j <? n + c))%nat then Some (s + j - c)%nat else None.
Proof.
  intros Hs Hc Hj. rewrite (window_gen_spec c s n filtered Hs Hc).
  exact (conj (window_spec_length c s n) (window_spec_nth c s n j Hj)).
Qed.
Print Assumptions C12_window_spec.

(* dataset concatenation: every in-range (also negative) index lands in the member that contains it, at the right offset *)
Theorem C12_concat_locate sizes idx : sizes <> [] ->
  let total := fold_right Nat.add 0%nat sizes in
  (- Z.of_nat total <= idx < Z.of_nat total)%Z ->
  let x := Z.to_nat (if (idx <? 0)%Z then Z.of_nat total + idx else idx)%Z in
  let cum := cumsum_from 0 sizes in
  let j := bisect_right cum x in
  concat_getitem_gen sizes idx = Some (j, (x - prev_cum 0 cum j)%nat) /\
  (j < length sizes)%nat /\ (prev_cum 0 cum j <= x < nth j cum 0)%nat /\ (x - prev_cum 0 cum j < nth j sizes 0)%nat.
Proof. exact (concat_getitem_spec sizes idx). Qed.
Print Assumptions C12_concat_locate.

Example C12_example : run_case [3; 2]%nat (Some (Some 1%Z, None)) 1%nat
  = ([(0, 1); (0, 2); (1, 1)], [(0, 2); (2, 3)],
     [(0, 1, [Some 0; Some 1; Some 2]); (0, 2, [Some 1; Some 2; None]); (1, 1, [Some 0; Some 1; None])])%nat.
Proof. vm_compute. reflexivity. Qed.
