(* C03 — property theorems only. *)
From DV Require Import Base.Tactics Base.OpIR Model.C03 Proofs.C03.
From G Require Import C03_gen C03_tie.

(* masked k-space equals the input where the mask is set and is exactly zero elsewhere (any value type, so also
   IEEE values with -0.0 / inf / NaN); masking is idempotent *)
Theorem C03_mask_is_selection (V MV : Type) (zero : V) (hit : MV -> bool) (mdflt : MV) b m t i d : i < length t ->
  length (where_hit V MV zero hit mdflt b m t) = length t /\
  nth i (where_hit V MV zero hit mdflt b m t) d = (if hit (nth (b i) m mdflt) then zero else nth i t d) /\
  where_hit V MV zero hit mdflt b m (where_hit V MV zero hit mdflt b m t) = where_hit V MV zero hit mdflt b m t.
Proof.
  intros H. exact (conj (where_hit_length V MV zero hit mdflt b m t)
                  (conj (where_hit_nth V MV zero hit mdflt b m t i d H) (where_hit_idem V MV zero hit mdflt b m t))).
Qed.
Print Assumptions C03_mask_is_selection.

(* apply_mask, ApplyMaskModule and apply_padding, as regenerated from the source, are exactly that selection *)
Theorem C03_code_is_selection :
  apply_mask_t = OWhere0 0 (OVar 0) /\ apply_mask_module_t = OWhere0 0 (OVar 0) /\ apply_padding_t = OWherePad 1 (OVar 0).
Proof. exact (conj (proj1 apply_mask_is_selection) (conj (proj2 apply_mask_is_selection) apply_padding_is_selection)). Qed.
Print Assumptions C03_code_is_selection.

(* the engines' forward operator is zero off the support: its outermost operation is the mask *)
Theorem C03_forward_operator_masked : head_masked 0 fwd_op_t = true.
Proof. exact fwd_op_head_masked. Qed.
Print Assumptions C03_forward_operator_masked.

(* no value from an unsampled location can reach a model input or a data-consistency term: for the backward operator,
   the RIM likelihood block and the conjugate-gradient operators, two k-spaces that agree wherever the mask is set give
   the same result, whatever the Fourier operators, coil operators and arithmetic are *)
Theorem C03_unsampled_kspace_cannot_leak (V MV S : Type) (zero : V) (is_zero is_one : MV -> bool) (mdflt : MV) (b bp : nat -> nat)
  (F Finv : list V -> list V) (expand reduce sub add : list V -> list V -> list V) (scale : S -> list V -> list V)
  (layout : nat -> list V -> list V) (rt rt' : var -> list V) rm rs (e : oexp) :
  In e [bwd_op_t; loglik_t; a_star_t; a_star_a_t; b_op_t] ->
  (forall y, y <> 0 -> rt y = rt' y) ->
  length (rt 0) = length (rt' 0) ->
  (forall i, i < length (rt 0) -> is_zero (nth (b i) (rm 0) mdflt) = false -> nth i (rt 0) zero = nth i (rt' 0) zero) ->
  ev V MV S zero is_zero is_one mdflt b bp F Finv expand reduce sub add scale layout rt rm rs e
  = ev V MV S zero is_zero is_one mdflt b bp F Finv expand reduce sub add scale layout rt' rm rs e.
Proof.
  intros Hin. apply masked_input_noninterference.
  destruct kspace_only_masked as (H1 & H2 & H3 & H4 & H5).
  cbn [In] in Hin. destruct Hin as [<-|[<-|[<-|[<-|[<-|[]]]]]]; assumption.
Qed.
Print Assumptions C03_unsampled_kspace_cannot_leak.

(* the likelihood masks the prediction as well as the data *)
Theorem C03_likelihood_masks_both_terms :
  fwd_only_under_mask 0 false loglik_t = true /\ fwd_only_under_mask 0 false a_star_a_t = true.
Proof. exact loglik_masks_prediction. Qed.
Print Assumptions C03_likelihood_masks_both_terms.

Example C03_example : where_hit nat bool 0 (fun b => b) false (fun i => i / 2) [false; true; false] [11; 12; 13; 14; 15; 16] = [11; 12; 0; 0; 15; 16].
Proof. vm_compute. reflexivity. Qed.
