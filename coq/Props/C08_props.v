(* C08 — property theorems (statements only).
   x ranges over the configurations of build_mri_transforms (supervised) with a masking function and scaling key
   kspace / masked_kspace; the sample at the end of the regenerated pipeline is described by terms over the raw k-space. *)
From DV Require Import Base.Tactics Model.C08 Proofs.C08.
From Coq Require Import QArith String.
From G Require Import C08_gen C08_defs C08_tie.

Theorem C08_pipeline_scale_equivariant :
  forall (V : Type) (act : V -> V) lin padof padapply maskgen body sens masked scalef one divv image images split (const nopad : V),
  (forall n v, lin n (act v) = act (lin n v)) -> (forall v, padof (act v) = padof v) -> (forall v p, padapply (act v) p = act (padapply v p)) ->
  (forall a v p, maskgen a (act v) p = maskgen a v p) -> (forall v a, body (act v) a = act (body v a)) -> (forall v a, sens (act v) a = sens v a) ->
  (forall m v, masked m (act v) = act (masked m v)) -> (forall p v, scalef p (act v) = act (scalef p v)) -> (forall v, one (act v) = one v) ->
  (forall v s, divv (act v) s = act (divv v s)) -> (forall v s, divv (act v) (act s) = divv v s) -> (forall v, image (act v) = act (image v)) -> (forall v s, images (act v) s = act (images v s)) ->
  forall (x : cfg), In (c_scaling x) [SKData Kspace; SKData MaskedKspace] -> claimed x = true ->
  exists e, sym_run (gen_supervised x) [(Kspace, TRaw Kspace)] = Some e /\
    forall (rho : key -> V) k t, In (k, t) e ->
      eval V lin padof padapply maskgen body sens masked scalef one divv image images split const nopad (scaled V act rho) t
      = (if key_eqb k ScalingFactor || key_eqb k BodyCoil then act else (fun v => v)) (eval V lin padof padapply maskgen body sens masked scalef one divv image images split const nopad rho t).
Proof.
  intros V act lin padof padapply maskgen body sens masked scalef one divv image images split const nopad H1 H2 H3 H4 H5 H6 H7 H8 H9 H10 H11 H12 H13 x Hs Hm.
  pose proof (final_ok_every x Hs Hm) as F. unfold final_ok in F. destruct (sym_run (gen_supervised x) [(Kspace, TRaw Kspace)]) as [e|]; [|discriminate].
  exists e. split; [reflexivity|]. apply andb_true_iff in F. destruct F as [Fd _].
  intros rho k t Hin. rewrite (eval_homog V act lin padof padapply maskgen body sens masked scalef one divv image images split const nopad H1 H2 H3 H4 H5 H6 H7 H8 H9 H10 H11 H12 H13 rho t _ (degrees_ok_spec e Fd k t Hin)).
  destruct (key_eqb k ScalingFactor || key_eqb k BodyCoil); reflexivity.
Qed.
Print Assumptions C08_pipeline_scale_equivariant.

Theorem C08_outputs_consistent : forall (x : cfg), In (c_scaling x) [SKData Kspace; SKData MaskedKspace] -> claimed x = true ->
  exists e m k s tg, sym_run (gen_supervised x) [(Kspace, TRaw Kspace)] = Some e /\
    lookup MaskedKspace e = Some (TDiv (TMasked m k) s) /\ lookup Target e = Some tg /\ image_arg tg = Some (TDiv k s) /\
    lookup ScalingFactor e = Some s /\ lookup SamplingMask e = Some m /\ (forall k', lookup Kspace e = Some k' -> k' = TDiv k s) /\
    (forall a sm, tg = TImageS a sm -> lookup SensMap e = Some sm).
Proof.
  intros x Hs Hm. pose proof (final_ok_every x Hs Hm) as F. unfold final_ok in F.
  destruct (sym_run (gen_supervised x) [(Kspace, TRaw Kspace)]) as [e|]; [|discriminate]. apply andb_true_iff in F. destruct F as [_ Fc].
  destruct (consistent_spec e Fc) as (m & k & s & tg & A & B & C & D & E & F & G). exists e, m, k, s, tg. repeat split; assumption.
Qed.
Print Assumptions C08_outputs_consistent.

(* the self-supervised pipeline (mask splitter after the supervised stages): every output is scale-free except the scaling
   factor; input k-space and target k-space are the normalised masked k-space restricted to the two masks drawn from the
   sampling mask, and the target is the image of the target k-space *)
Theorem C08_ssl_pipeline_degrees_and_consistency : forall (x : cfg), In (c_scaling x) [SKData Kspace; SKData MaskedKspace] -> claimed x = true ->
  exists e, sym_run (gen_ssl x) [(Kspace, TRaw Kspace)] = Some e /\ ssl_consistent e = true /\
    forall k t, In (k, t) e -> tdeg t = Some (if key_eqb k ScalingFactor || key_eqb k BodyCoil then 1 else 0)%nat.
Proof.
  intros x Hs Hm. pose proof (final_ok_ssl_every x Hs Hm) as F. unfold final_ok_ssl in F.
  destruct (sym_run (gen_ssl x) [(Kspace, TRaw Kspace)]) as [e|]; [|discriminate]. apply andb_true_iff in F. destruct F as [Fd Fc].
  exists e. split; [reflexivity|]. split; [exact Fc|]. exact (degrees_ok_spec e Fd).
Qed.
Print Assumptions C08_ssl_pipeline_degrees_and_consistency.

Theorem C08_zero_padding_threshold_is_relative : forall c a m eps : Q, (0 < c)%Q -> (gen_pad_test (c * a) (c * m) eps <-> gen_pad_test a m eps).
Proof. exact pad_test_relative. Qed.
Print Assumptions C08_zero_padding_threshold_is_relative.

Open Scope string_scope.
Theorem C08_mask_depends_on_file_name_and_shapes : gen_mask_reads = ["filename"; "kspace"; "padding"].
Proof. exact mask_reads_tie. Qed.
Print Assumptions C08_mask_depends_on_file_name_and_shapes.
Close Scope string_scope.

(* non-vacuity: the default configuration; and a pipeline that normalises the sensitivity map as well is rejected *)
Definition default_cfg := Build_cfg false false false false false false true true false false false true true true (SKData MaskedKspace) true false.
Example C08_example : final_ok gen_supervised default_cfg = true
  /\ (match sym_run (gen_supervised default_cfg ++ [SNormalize ScalingFactor [SensMap]]) [(Kspace, TRaw Kspace)] with Some e => degrees_ok e | None => true end) = false.
Proof. vm_compute. split; reflexivity. Qed.
