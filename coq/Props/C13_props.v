(* C13 — property theorems only.  Each is closed by [exact] of a lemma proved in Proofs/C13.v or Tie/C13_tie.v. *)
From DV Require Import Base.Tactics Base.ListAux Model.C13 Proofs.C13.
From G Require Import C13_gen C13_tie.
Open Scope nat_scope.

(* the Python source of [chunks] computes exactly the model's slice bounds, for every list length / count / index *)
Theorem C13_chunks_code_is_model len k idx : (0 < k)%nat -> (idx < k)%nat ->
  chunks_count (Z.of_nat len) (Z.of_nat k) = Z.of_nat k /\
  chunk_lo (Z.of_nat len) (Z.of_nat k) (Z.of_nat idx) = Z.of_nat (chunk_si len k idx) /\
  chunk_hi (Z.of_nat len) (Z.of_nat k) (Z.of_nat idx) = Z.of_nat (chunk_si len k idx + chunk_sz len k idx).
Proof. intros Hk Hi. exact (conj (gen_chunks_count len k) (conj (gen_chunk_lo len k idx Hk Hi) (gen_chunk_hi len k idx Hk Hi))). Qed.
Print Assumptions C13_chunks_code_is_model.

(* chunks: k pieces, contiguous, in order, covering the list, sizes differ by at most one (larger first) *)
Theorem C13_chunks_partition (A : Type) (l : list A) k : (0 < k)%nat ->
  length (chunks l k) = k /\ concat (chunks l k) = l.
Proof. intros Hk. exact (conj (chunks_length l k) (chunks_concat l k Hk)). Qed.
Print Assumptions C13_chunks_partition.

Theorem C13_chunks_balanced len k i j : (0 < k)%nat -> (i <= j)%nat ->
  (chunk_sz len k j <= chunk_sz len k i <= chunk_sz len k j + 1)%nat.
Proof. exact (chunk_sz_balanced len k i j). Qed.
Print Assumptions C13_chunks_balanced.

(* every volume goes to exactly one rank, whole and in order; ranks together cover every index once *)
Theorem C13_ranks_partition layout k limit : (0 < k)%nat ->
  concat (dss_all layout k limit) = ranges_from 0 (limited layout limit) /\
  concat (map (fun vs => concat (map rng vs)) (dss_all layout k limit)) = seq 0 (fold_right Nat.add 0 (limited layout limit)).
Proof. intros Hk. exact (conj (dss_volumes_partition layout k limit Hk) (dss_cover layout k limit Hk)). Qed.
Print Assumptions C13_ranks_partition.

(* every batch is a run of consecutive slices of one volume, at most bs long; volumes in order, nothing lost *)
Theorem C13_batches_single_volume bs vols : (0 < bs)%nat -> Forall nonempty_vol vols ->
  exists parts : list (list (list nat)),
    bvs_run vols bs = concat parts /\ length parts = length vols /\
    (forall i v p, nth_error vols i = Some v -> nth_error parts i = Some p ->
        concat p = rng v /\ Forall (batch_ok bs v) p).
Proof. exact (bvs_batches_single_volume bs vols). Qed.
Print Assumptions C13_batches_single_volume.

(* the reported length is the number of batches *)
Theorem C13_len bs vols : (0 < bs)%nat -> Forall nonempty_vol vols ->
  length (bvs_run vols bs) = bvs_num (bvs_init vols bs).
Proof. exact (bvs_len bs vols). Qed.
Print Assumptions C13_len.

(* the whole path, for every rank (also ranks without volumes), limit, batch size and number of re-iterations *)
Theorem C13_every_iteration layout k rank limit bs iters : (rank < k)%nat -> (0 < bs)%nat -> Forall (fun n => 1 <= n)%nat layout ->
  exists vols, nth_error (dss_all layout k limit) rank = Some vols /\
    eval_batches layout k rank limit bs iters
    = Some (repeat (concat (map (fun v => chunk_list bs (rng v)) vols)) iters,
            length (concat (map (fun v => chunk_list bs (rng v)) vols))).
Proof. exact (eval_batches_spec layout k rank limit bs iters). Qed.
Print Assumptions C13_every_iteration.

(* non-vacuity: a concrete layout meets the hypotheses and mixes nothing *)
Example C13_example : eval_batches [3; 5; 2; 4] 1 0 0 2 2
  = Some (repeat [[0;1];[2];[3;4];[5;6];[7];[8;9];[10;11];[12;13]] 2, 8)%nat.
Proof. vm_compute. reflexivity. Qed.
