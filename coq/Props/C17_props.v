(* C17 — property theorems (statements only; proofs are in Proofs/C17.v and Tie/C17_tie.v).
   Sizes are listed innermost axis first ([w; h] / [w; h; z]); `out_dims p dims = Some dims` says the network runs and
   returns exactly the spatial size it was given. *)
From DV Require Import Base.Tactics Model.C17 Proofs.C17.
From G Require Import C17_gen C17_defs C17_tie.
Local Open Scope Z_scope.

Theorem C17_unet2d_shape : forall (L : nat) h w, 2 ^ Z.of_nat (Nat.max L 1) <= h -> 2 ^ Z.of_nat (Nat.max L 1) <= w ->
  out_dims (gen_unet2d L) [w; h] = Some [w; h].
Proof. exact unet2d_gen. Qed.
Print Assumptions C17_unet2d_shape.

Theorem C17_normunet2d_shape : forall (L : nat) h w, (L <= 4)%nat -> 1 <= h -> 1 <= w -> out_dims (gen_normunet2d L) [w; h] = Some [w; h].
Proof. exact normunet2d_gen. Qed.
Print Assumptions C17_normunet2d_shape.

Theorem C17_normunet_pads_to_multiple_of_16 : forall n, 1 <= n -> gen_nu_mult n = 16 * ((n + 15) / 16) /\ n + gen_nu_lo n + gen_nu_hi n = gen_nu_mult n.
Proof. intros n H. split; [exact (nu_mult_spec n H)|exact (gen_nu_total n H)]. Qed.
Print Assumptions C17_normunet_pads_to_multiple_of_16.

Theorem C17_mwcnn_shape : forall (scales : nat) h w, (1 <= scales)%nat -> 2 ^ Z.of_nat scales <= h -> 2 ^ Z.of_nat scales <= w ->
  out_dims (gen_mwcnn scales) [w; h] = Some [w; h].
Proof. exact mwcnn_gen. Qed.
Print Assumptions C17_mwcnn_shape.

Theorem C17_didn_shape : forall (dubs recon_convs : nat) h w, 3 <= h -> 3 <= w -> out_dims (gen_didn dubs recon_convs) [w; h] = Some [w; h].
Proof. exact didn_gen. Qed.
Print Assumptions C17_didn_shape.

Theorem C17_unet3d_shape : forall (L : nat) z h w, (1 <= L)%nat -> 1 <= z -> 1 <= h -> 1 <= w -> out_dims (gen_unet3d L) [w; h; z] = Some [w; h; z].
Proof. exact unet3d_gen. Qed.
Print Assumptions C17_unet3d_shape.

Theorem C17_normunet3d_shape : forall (L : nat) z h w, (1 <= L <= 4)%nat -> 1 <= z -> 1 <= h -> 1 <= w -> out_dims (gen_normunet3d L) [w; h; z] = Some [w; h; z].
Proof. exact normunet3d_gen. Qed.
Print Assumptions C17_normunet3d_shape.

Theorem C17_crop_to_shape_is_min : forall c r, 0 <= r -> gen_mw_crop c r = Z.min c r /\ gen_dub_crop c r = Z.min c r /\ gen_didn_crop c r = Z.min c r.
Proof. intros c r H. rewrite mw_crop_tie, dub_crop_tie, didn_crop_tie by exact H. unfold crop_to. repeat split; case_if; lia. Qed.
Print Assumptions C17_crop_to_shape_is_min.

(* non-vacuity: odd, non-square sizes at the architectural minimum; and the padding index map matters *)
Example C17_example : out_dims (gen_unet2d 3) [9; 13] = Some [9; 13] /\ out_dims (gen_mwcnn 3) [11; 8] = Some [11; 8]
  /\ out_dims (gen_didn 2 2) [3; 7] = Some [3; 7] /\ out_dims (gen_normunet3d 2) [5; 1; 3] = Some [5; 1; 3]
  /\ out_dims (unet_prog [3; 1]%nat 2) [8; 7] = None.
Proof. vm_compute. repeat split; reflexivity. Qed.
