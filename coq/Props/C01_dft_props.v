(* C01 — property theorems about the DFT itself (MathComp file). *)
Set Warnings "-notation-overridden,-ambiguous-paths,-projection-no-head-constant,-redundant-canonical-projection".
From mathcomp Require Import all_ssreflect all_algebra all_field.
From DV Require Import Proofs.C01_dft.
Import GRing.Theory Num.Theory.
Local Open Scope ring_scope.

(* over any field with a primitive n-th root of unity in which n is invertible: the backward transform undoes the
   forward transform and conversely *)
Theorem C01_idft_dft (F : fieldType) (n : nat) (w : F) (x : 'I_n -> F) (j : 'I_n) :
  n.-primitive_root w -> n%:R != 0 :> F -> idft w (dft w x) j = x j.
Proof. by move=> wprim nunit; exact: (idft_dft wprim nunit). Qed.
Print Assumptions C01_idft_dft.

Theorem C01_dft_idft (F : fieldType) (n : nat) (w : F) (X : 'I_n -> F) (k : 'I_n) :
  n.-primitive_root w -> n%:R != 0 :> F -> dft w (idft w X) k = X k.
Proof. by move=> wprim nunit; exact: (dft_idft wprim nunit). Qed.
Print Assumptions C01_dft_idft.

(* energy: sum |X_k|^2 = n * sum |x_j|^2, so the ortho normalisation (1/sqrt n both ways) preserves energy *)
Theorem C01_parseval (C : numClosedFieldType) (n : nat) (w : C) (x : 'I_n -> C) : n.-primitive_root w ->
  \sum_(k < n) dft w x k * (dft w x k)^* = n%:R * \sum_(j < n) x j * (x j)^*.
Proof. by move=> wprim; exact: (parseval wprim). Qed.
Print Assumptions C01_parseval.

(* the centred transform fftshift o dft o ifftshift is the textbook shifted DFT, for odd and even n *)
Theorem C01_centred_is_textbook (F : fieldType) (n : nat) (w : F) (wprim : n.-primitive_root w) (c : nat)
  (x : 'I_n -> F) (k : 'I_n) : (c <= n)%N -> centred_dft wprim c x k = textbook_cdft w c x k.
Proof. exact: centred_dft_is_textbook. Qed.
Print Assumptions C01_centred_is_textbook.

(* the hypotheses are satisfiable for every length: algC has primitive roots of every order and characteristic 0 *)
Theorem C01_inverse_holds_in_algC (n : nat) : (0 < n)%N ->
  exists w : algC, n.-primitive_root w /\
    (forall (x : 'I_n -> algC) j, idft w (dft w x) j = x j) /\ (forall (X : 'I_n -> algC) k, dft w (idft w X) k = X k).
Proof. exact: dft_algC_inverse. Qed.
Print Assumptions C01_inverse_holds_in_algC.

Theorem C01_parseval_holds_in_algC (n : nat) : (0 < n)%N ->
  exists w : algC, n.-primitive_root w /\
    forall x : 'I_n -> algC, \sum_(k < n) dft w x k * (dft w x k)^* = n%:R * \sum_(j < n) x j * (x j)^*.
Proof. exact: parseval_algC. Qed.
Print Assumptions C01_parseval_holds_in_algC.
