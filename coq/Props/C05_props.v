(* C05 — property theorems only. *)
From DV Require Import Base.Tactics Base.RngIR Proofs.C05.
From G Require Import C05_gen C05_tie.

(* for every mask generator (its seeded routine regenerated from the source), every seed, and any two states of the
   private and global random streams - hence after any history of earlier calls, on a fresh or a reused instance - the
   values that determine the masks are the same, and the call leaves the private and the global streams untouched *)
Theorem C05_seeded_masks_reproducible (S V Seed : Type) (draw : S -> V * S) (reseed : Seed -> S) (derive : Seed -> Seed)
  (kernel : V -> list V) (p : rprog) : In p all_generators ->
  forall seed (st st' : rstate S V),
    seen (exec S V Seed draw reseed derive kernel p seed st) = seen (exec S V Seed draw reseed derive kernel p seed st') /\
    priv (exec S V Seed draw reseed derive kernel p seed st) = priv st /\
    glob (exec S V Seed draw reseed derive kernel p seed st) = glob st.
Proof.
  intros Hin. apply disciplined_history_independent.
  exact (proj1 (forallb_forall disciplined all_generators) all_generators_disciplined p Hin).
Qed.
Print Assumptions C05_seeded_masks_reproducible.

Theorem C05_history_irrelevant (S V Seed : Type) (draw : S -> V * S) (reseed : Seed -> S) (derive : Seed -> Seed)
  (kernel : V -> list V) (p : rprog) : In p all_generators ->
  forall seed (st : rstate S V) (history : list (rprog * Seed)),
    seen (exec S V Seed draw reseed derive kernel p seed
            (fold_left (fun s c => exec S V Seed draw reseed derive kernel (fst c) (snd c) s) history st))
    = seen (exec S V Seed draw reseed derive kernel p seed st).
Proof.
  intros Hin. apply history_irrelevant.
  exact (proj1 (forallb_forall disciplined all_generators) all_generators_disciplined p Hin).
Qed.
Print Assumptions C05_history_irrelevant.

Theorem C05_all_generators_covered : length all_generators = 14.
Proof. exact fourteen_generators. Qed.

(* the statement is not vacuous: a routine drawing from the global numpy stream is rejected *)
Example C05_undisciplined_rejected : disciplined {| rpre := []; rbody := [RDrawPriv; RDrawGlobal 0]; rpost := [] |} = false.
Proof. reflexivity. Qed.
