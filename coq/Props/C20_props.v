(* C20 — property theorems only (finite: bounded by the set of configurations shipped at this working tree). *)
From Coq Require Import String List Bool.
Import ListNotations.
From DV Require Import Model.C20.
From G Require Import C20_gen C20_tie.

(* every shipped configuration: model, model configuration, engine, additional models, dataset configurations, dataset
   classes, masking functions and operators resolve to existing definitions, and the keys of the model sections are
   fields of their configuration classes *)
Theorem C20_all_shipped_configs_resolve c : In c shipped -> config_ok registry_now config_fields_now c = true.
Proof. exact (proj1 (forallb_forall _ shipped) all_shipped_ok c). Qed.
Print Assumptions C20_all_shipped_configs_resolve.

Theorem C20_defaults_constructible f : In f field_defaults_now -> snd f <> 3.
Proof.
  intros H. pose proof (proj1 (forallb_forall _ field_defaults_now) defaults_constructible f H) as E.
  apply negb_true_iff in E. apply PeanoNat.Nat.eqb_neq in E. exact E.
Qed.
Print Assumptions C20_defaults_constructible.

Theorem C20_transform_keys_accepted k : In k transform_schema_leaves -> mem k transform_builder_params = true.
Proof. exact (proj1 (forallb_forall _ transform_schema_leaves) transform_keys_accepted k). Qed.
Print Assumptions C20_transform_keys_accepted.

(* the model distinguishes: a misspelt engine name does not resolve *)
Example C20_example :
  resolves registry_now (engine_req ["unet"; "unet_2d"; "Unet2d"]%string ""%string) = true /\
  resolves registry_now (engine_req ["unet"; "unet_2d"; "Unet2d"]%string "UNetSSLEngine"%string) = false.
Proof. vm_compute. split; reflexivity. Qed.
