(* C16 — property theorems only.  W, G, the gradient function, the optimiser, the clip are arbitrary. *)
From DV Require Import Base.Tactics Model.C16 Proofs.C16.
From G Require Import C16_gen C16_defs C16_tie.

(* the loop body regenerated from Engine.training_loop behaves, on every iteration and state, like the reference step *)
Theorem C16_loop_is_reference (W G : Type) g gzero gadd gdiv clip opt k clipping n it (s : st W G) : (0 < k)%nat ->
  run_from W G g gzero gadd gdiv clip opt step_due loop_body k clipping it n s
  = ref_run W G g gzero gadd gdiv clip opt k clipping it n s.
Proof. intros Hk. exact (run_is_ref_run W G g gzero gadd gdiv clip opt k clipping n Hk it s). Qed.
Print Assumptions C16_loop_is_reference.

(* hence m*k iterations from a clean gradient buffer are m updates, each the optimiser step on the (divided, clipped)
   sum of the k gradients of its window taken at the window's parameters, with the learning rate of the window's last
   iteration: nothing dropped, nothing counted twice *)
Theorem C16_accumulation (W G : Type) g gzero gadd gdiv clip opt k clipping m j (s : st W G) : (0 < k)%nat -> grad s = gzero ->
  run_from W G g gzero gadd gdiv clip opt step_due loop_body k clipping (j * k) (m * k) s
  = ref_windows W G g gzero gadd gdiv clip opt k clipping j m s.
Proof.
  intros Hk Hg. rewrite (run_is_ref_run W G g gzero gadd gdiv clip opt k clipping (m * k) Hk (j * k) s).
  exact (ref_run_is_windows W G g gzero gadd gdiv clip opt k clipping Hk m j s Hg).
Qed.
Print Assumptions C16_accumulation.

(* k = 1: every batch produces exactly one step with its own gradient *)
Theorem C16_k1_every_batch (W G : Type) g gzero gadd gdiv clip opt clipping it w e :
  iteration W G g gzero gadd gdiv clip opt step_due loop_body 1 clipping it {| params := w; grad := gzero; epoch := e |}
  = {| params := opt w (post G gdiv clip 1 clipping (gadd gzero (g it w))) e; grad := gzero; epoch := S e |}.
Proof.
  rewrite (iteration_is_ref_step W G g gzero gadd gdiv clip opt 1 clipping it _ ltac:(lia)).
  exact (ref_step_k1 W G g gzero gadd gdiv clip opt clipping it w e).
Qed.
Print Assumptions C16_k1_every_batch.

(* the learning-rate schedule advances exactly once per iteration *)
Theorem C16_schedule_once_per_iteration (W G : Type) g gzero gadd gdiv clip opt k clipping n it (s : st W G) : (0 < k)%nat ->
  epoch (run_from W G g gzero gadd gdiv clip opt step_due loop_body k clipping it n s) = (epoch s + n)%nat.
Proof.
  intros Hk. rewrite (run_is_ref_run W G g gzero gadd gdiv clip opt k clipping n Hk it s).
  exact (ref_run_epoch W G g gzero gadd gdiv clip opt k clipping n it s).
Qed.
Print Assumptions C16_schedule_once_per_iteration.

(* the hypothesis [grad s = gzero] of C16_accumulation holds when training starts: Engine.train clears the gradients of
   every optimised parameter before entering the loop *)
Theorem C16_training_starts_clean : train_starts_with_clean_gradients = true.
Proof. exact starts_clean. Qed.

(* non-vacuity: k = 2, gradients 1 2 4 8, lr 1/2 halved from epoch 3 on: w = -(1/2 * 3/2) - (1/4 * 6) = -9/4 *)
From Coq Require Import QArith.
Example C16_example : run_q 2 false 4 [1; 2; 4; 8]%Q (1 # 2)%Q = ((-9, 4)%Z, 4%nat).
Proof. vm_compute. reflexivity. Qed.
