(* C15 — property theorems only. *)
From DV Require Import Base.Tactics Model.C15 Model.C16 Proofs.C15.
From G Require Import C15_gen C15_defs C15_tie.
Open Scope Z_scope.

(* the save routine regenerated from Checkpointer.save: a complete save makes the new checkpoint 'latest' *)
Theorem C15_latest_is_most_recent (D : Type) (f : fs D) it (d : D) :
  load_latest D (apply_all D (save_trace D it d) f) = Ok it d.
Proof. rewrite save_trace_is_atomic. exact (save_then_load D f it d). Qed.
Print Assumptions C15_latest_is_most_recent.

(* the process dies at any point of the save (between any two effects, or inside a write): 'latest' is the previous
   checkpoint or the new one, never corrupt or missing — for every prior file-system state, iteration and content *)
Theorem C15_crash_safe (D : Type) (f : fs D) it (d : D) s :
  In s (crash_states D (save_trace D it d) f) -> load_latest D f <> Corrupt ->
  load_latest D s = load_latest D f \/ load_latest D s = Ok it d.
Proof. rewrite save_trace_is_atomic. exact (crash_safe D f it d s). Qed.
Print Assumptions C15_crash_safe.

(* ... also after any history of completed saves (increasing iterations or not, re-saving an iteration included) *)
Theorem C15_history_crash_safe (D : Type) saves it (d : D) (f0 : fs D) s : load_latest D f0 <> Corrupt ->
  In s (crash_states D (save_trace D it d) (after_saves D saves f0)) ->
  load_latest D s = load_latest D (after_saves D saves f0) \/ load_latest D s = Ok it d.
Proof. rewrite save_trace_is_atomic. exact (history_crash_safe D saves it d f0 s). Qed.
Print Assumptions C15_history_crash_safe.

Theorem C15_history_latest (D : Type) saves it (d : D) (f0 : fs D) :
  load_latest D (after_saves D (saves ++ [(it, d)]) f0) = Ok it d.
Proof. exact (after_saves_latest D saves it d f0). Qed.
Print Assumptions C15_history_latest.

(* resume arithmetic: a checkpoint written on an exception path of iteration it restarts at it; a regular one, written
   after the update of iteration it, restarts at it + 1 *)
Theorem C15_labels (it : Z) :
  Forall (fun l => resume_start (kill_saved_label l) = it) (kill_labels it) /\ kill_labels it <> [] /\
  resume_start (reg_label it) = it + 1 /\ reg_save_after_update = true.
Proof. exact (conj (kill_labels_resume it) (conj (kill_labels_nonempty it) (reg_label_resume it))). Qed.
Print Assumptions C15_labels.

(* ... hence continuing from a checkpoint that holds the state after [start] iterations, at iteration [start], is the
   uninterrupted run: same parameters, same schedule epoch, for any model, data, optimiser and schedule *)
Theorem C15_resume_equiv (W G : Type) g gzero gadd gdiv clip opt k c (N start : nat) (s0 : st W G) : (start <= N)%nat ->
  ref_run W G g gzero gadd gdiv clip opt k c start (N - start) (ref_run W G g gzero gadd gdiv clip opt k c 0 start s0)
  = ref_run W G g gzero gadd gdiv clip opt k c 0 N s0.
Proof. exact (resume_equiv W G g gzero gadd gdiv clip opt k c N start s0). Qed.
Print Assumptions C15_resume_equiv.

(* the in-place protocol (truncate-then-write of the checkpoint and of the pointer) is refuted by a witness *)
Theorem C15_in_place_refuted : exists (f : fs Z) s,
  load_latest Z f = Ok 5 51 /\ In s (crash_states Z (save_in_place Z 6 61) f) /\ load_latest Z s = Corrupt.
Proof. exact (in_place_refuted Z 51 61). Qed.
Print Assumptions C15_in_place_refuted.

Example C15_example : crash_run [(5, 51)] 9 91 =
  [Ok 5 51; Ok 5 51; Ok 5 51; Ok 5 51; Ok 5 51; Ok 5 51; Ok 5 51; Ok 5 51; Ok 9 91].
Proof. vm_compute. reflexivity. Qed.
