(* C07 — property theorems only. *)
From DV Require Import Base.Tactics.
From Coq Require Import QArith Qabs.
From G Require Import C07_gen C07_defs C07_tie.
Local Open Scope Q_scope.

Theorem C07_random_expected_budget N R L : ~ N - L == 0 -> ~ R == 0 -> L + (N - L) * random_prob N R L == N / R.
Proof. exact (random_expected N R L). Qed.
Print Assumptions C07_random_expected_budget.

Theorem C07_random_prob_is_probability N R L : 0 < R -> L < N -> L <= N / R -> N / R <= N -> 0 <= random_prob N R L <= 1.
Proof. exact (random_prob_range N R L). Qed.
Print Assumptions C07_random_prob_is_probability.

Theorem C07_equispaced_adjusted_acceleration N R L : ~ R == 0 -> ~ N - L == 0 -> ~ L * R - N == 0 ->
  (N - L) / equi_adjusted N R L == N / R - L.
Proof. exact (equispaced_adjusted N R L). Qed.
Print Assumptions C07_equispaced_adjusted_acceleration.

Theorem C07_gaussian1d_budget (rnd : Q -> Z) N R L : (forall x, Qabs (inject_Z (rnd x) - x) <= 1 # 2) ->
  Qabs (inject_Z (L + rnd (g1d_arg N R (inject_Z L)) + kernel_extra) - N / R) <= 1 # 2.
Proof. exact (gaussian1d_budget rnd N R L). Qed.
Print Assumptions C07_gaussian1d_budget.

Theorem C07_gaussian2d_budget (rnd : Q -> Z) N M R L : (forall x, Qabs (inject_Z (rnd x) - x) <= 1 # 2) ->
  Qabs (inject_Z (L + rnd (g2d_arg N M R (inject_Z L)) + kernel_extra) - N * M / R) <= 1 # 2.
Proof. exact (gaussian2d_budget rnd N M R L). Qed.
Print Assumptions C07_gaussian2d_budget.

Example C07_example : g1d_total 100 4 8 = 25%Z /\ g1d_total 101 (11 # 2) 4 = 18%Z.
Proof. vm_compute. split; reflexivity. Qed.

From Coq Require Import String.
Theorem C07_formula_variables_are_the_request :
  (random_bindings = equi_bindings) /\ List.length g1d_bindings = 5%nat /\ List.length g2d_bindings = 5%nat.
Proof. rewrite random_bindings_pinned, equi_bindings_pinned, g1d_bindings_pinned, g2d_bindings_pinned. repeat split. Qed.
Print Assumptions C07_formula_variables_are_the_request.
