(* C04 — property theorems only. *)
From DV Require Import Base.Tactics Model.C04 Proofs.C04.
From G Require Import C04_gen C04_tie.
Local Open Scope Z_scope.

(* BaseMaskFunc.__call__ rejects exactly the shapes of rank < 3 (< 4 in dynamic / multislice mode) *)
Theorem C04_call_guard dyn rank : call_rejects dyn rank = false <-> (3 <= rank /\ (dyn = true -> 4 <= rank)).
Proof. exact (call_guard_spec dyn rank). Qed.
Print Assumptions C04_call_guard.

(* for every accepted shape the reshape target is the documented geometry: a leading coil axis of size 1, size 1 on
   every axis except rows and columns, plus the frame axis in dynamic / multislice mode ... *)
Theorem C04_shape_is_documented dyn shape : call_rejects dyn (Z.of_nat (length shape)) = false ->
  reshape_shape dyn shape = spec_shape dyn shape.
Proof. exact (reshape_is_spec dyn shape). Qed.
Print Assumptions C04_shape_is_documented.

(* ... which has rank |shape| + 1 and broadcasts against (coil, *shape) for any number of coils *)
Theorem C04_shape_broadcasts dyn shape coil :
  length (spec_shape dyn shape) = S (length shape) /\ broadcasts (spec_shape dyn shape) (coil :: shape) = true.
Proof. exact (conj (spec_shape_length dyn shape) (spec_shape_broadcasts dyn shape coil)). Qed.
Print Assumptions C04_shape_broadcasts.

(* the slope bisection of the variable-density Poisson generator, as regenerated from the source, leaves its loop for
   every sequence of verdicts: each trip strictly shrinks the interval of representable slopes; the documented
   ValueError follows when the tolerance was not met *)
Theorem C04_bisection_terminates (mid : Z -> Z -> Z) (verdict : Z -> option bool) :
  (forall lo hi, lo < hi -> lo <= mid lo hi <= hi) ->
  forall fuel lo hi, Z.max 0 (hi - lo) < Z.of_nat fuel -> bisect mid verdict fuel vdp_bisect lo hi <> OutOfFuel.
Proof.
  intros Hm fuel lo hi Hf. rewrite (proj1 vdp_bisect_is_guarded). exact (safe_bisect_terminates mid verdict Hm fuel lo hi Hf).
Qed.
Print Assumptions C04_bisection_terminates.

Theorem C04_bisection_error_documented : vdp_raises_when_out_of_tolerance = true.
Proof. exact (proj2 vdp_bisect_is_guarded). Qed.

(* the loop without that guard can run forever (the midpoint of two adjacent floats is one of them) *)
Theorem C04_unguarded_bisection_refuted : exists mid verdict lo hi,
  (forall a b, a < b -> a <= mid a b <= b) /\ forall fuel, bisect mid verdict fuel unguarded_bisect lo hi = OutOfFuel.
Proof. exact unguarded_bisect_can_stall. Qed.
Print Assumptions C04_unguarded_bisection_refuted.

(* the Gaussian rejection kernels: when they return, exactly c + 1 new, distinct, in-range cells were added and nothing
   was removed, for every candidate stream *)
Theorem C04_rejection_kernel_contract stream n mask c mask' :
  reject stream n mask (Z.to_nat (g1d_need c)) = Some mask' ->
  length mask' = (length mask + Z.to_nat (c + 1))%nat /\ (forall x, In x mask -> In x mask') /\
  (forall x, In x mask' -> In x mask \/ (0 <= x < n)) /\ (NoDup mask -> NoDup mask').
Proof.
  rewrite (proj1 (kernels_need c)). exact (reject_sound stream n mask (Z.to_nat (c + 1)) mask').
Qed.
Print Assumptions C04_rejection_kernel_contract.

Example C04_example : reshape_shape true [3; 5; 8; 6; 2] = [1; 1; 5; 8; 6; 1] /\ reshape_shape false [5; 8; 6; 2] = [1; 1; 8; 6; 1].
Proof. vm_compute. split; reflexivity. Qed.
