(* C18 — property theorems (statements only). A batch is a list of samples, each the flat list of its values; [gn] is
   any function of one row of the (b, groups, -1) view (for the normalisation blocks: standardise the row by its own
   mean and std), [stat] any statistic of a row, [un] any operation of a row with its own statistic. *)
From DV Require Import Base.Tactics Base.ListAux Model.C18 Proofs.C18.
From G Require Import C18_gen C18_defs C18_tie.

Theorem C18_norm_is_per_sample : forall (A : Type) (gn : list A -> list A) (g m : nat) (samples : list (list A)),
  (0 < m)%nat -> Forall (fun s => List.length s = (g * m)%nat) samples ->
  batched gn m samples = concat (map (rows_op gn m) samples).
Proof. intros A gn. exact (batched_is_map gn). Qed.
Print Assumptions C18_norm_is_per_sample.

Theorem C18_statistics_are_per_sample : forall (A St : Type) (stat : list A -> St) (g m : nat) (samples : list (list A)),
  (0 < m)%nat -> Forall (fun s => List.length s = (g * m)%nat) samples ->
  row_stats stat m (concat samples) = concat (map (row_stats stat m) samples).
Proof. intros A St stat. exact (stats_are_per_sample stat). Qed.
Print Assumptions C18_statistics_are_per_sample.

Theorem C18_unnorm_is_per_sample : forall (A St : Type) (stat : list A -> St) (un : St -> list A -> list A) (g m : nat) (samples : list (list A)),
  (0 < m)%nat -> Forall (fun s => List.length s = (g * m)%nat) samples ->
  rows_un un m (row_stats stat m (concat samples)) (concat samples) = concat (map (fun s => rows_un un m (row_stats stat m s) s) samples).
Proof. intros A St stat un. exact (unnorm_is_map stat un). Qed.
Print Assumptions C18_unnorm_is_per_sample.

Theorem C18_sample_independent_of_companions : forall (A : Type) (gn : list A -> list A) (g m : nat) (before before' after after' : list (list A)) (s : list A),
  (0 < m)%nat -> List.length s = (g * m)%nat -> Forall (fun t => List.length t = (g * m)%nat) before -> Forall (fun t => List.length t = (g * m)%nat) before' ->
  Forall (fun t => List.length t = (g * m)%nat) after -> Forall (fun t => List.length t = (g * m)%nat) after' ->
  exists pre pre' post post',
    batched gn m (before ++ s :: after) = pre ++ rows_op gn m s ++ post /\
    batched gn m (before' ++ s :: after') = pre' ++ rows_op gn m s ++ post'.
Proof. intros A gn. exact (sample_independent_of_companions gn). Qed.
Print Assumptions C18_sample_independent_of_companions.

(* the blocks of the code base are of that row-wise form, and no forward method keeps state *)
Theorem C18_blocks_are_row_wise :
  gen_nu2_norm = rows_spec [VBatch; VChannels; VHeight; VWidth] /\ gen_nu2_unnorm = rows_spec [VBatch; VChannels; VHeight; VWidth] /\
  gen_nu3_norm = rows_spec [VBatch; VChannels; VDepth; VHeight; VWidth] /\ gen_nu3_unnorm = rows_spec [VBatch; VChannels; VDepth; VHeight; VWidth] /\
  gen_gru_norm = rows_spec [VBatch; VChannels; VHeight; VWidth] /\ gen_gru_unnorm = rows_spec [VBatch; VChannels; VHeight; VWidth] /\
  (gen_std_coil_dim = 1 /\ gen_std_channel_dim = -1)%Z.
Proof. repeat split; first [exact nu2_norm_tie | exact nu2_unnorm_tie | exact nu3_norm_tie | exact nu3_unnorm_tie | exact gru_norm_tie | exact gru_unnorm_tie | apply std_dims_tie]. Qed.
Print Assumptions C18_blocks_are_row_wise.

Theorem C18_forward_methods_keep_no_state : gen_forward_self_stores = [].
Proof. exact forward_stateless_tie. Qed.
Print Assumptions C18_forward_methods_keep_no_state.

Example C18_example : row_sums 2 [[1; 2; 3; 4]; [10; 20; 30; 40]]%Z = [3; 7; 30; 70]%Z
  /\ row_sums 2 [[1; 2; 3; 4]; [0; 0; 0; 0]]%Z = [3; 7; 0; 0]%Z.
Proof. vm_compute. split; reflexivity. Qed.
